# Table of claimed checks; consumed by tools_manifest.py
NOT_YET = {}
check('C12', 'exploration',
      'Bounded-exhaustive driving of the real Merkle/MerkleCache with an independent recursive definition as oracle: every list length up to the bound x every index, every power-of-two boundary up to 2^62, random cache initialise/extend/truncate/query sequences compared with from-scratch results. Right level: the component is pure and small, so the monitor can see every (length,index) up to the bound.',
      'hashlib SHA-256; lengths beyond the bound are not observed',
      'reference-model oracle on bounded-exhaustive executions of the real functions', 'DESIGN.md section 4 C12')
