# Table of claimed checks; consumed by tools_manifest.py
NOT_YET = {}
check('C12', 'exploration',
      'Bounded-exhaustive driving of the real Merkle/MerkleCache with an independent recursive definition as oracle: every list length up to the bound x every index, every power-of-two boundary up to 2^62, random cache initialise/extend/truncate/query sequences compared with from-scratch results. Right level: the component is pure and small, so the monitor can see every (length,index) up to the bound.',
      'hashlib SHA-256; lengths beyond the bound are not observed',
      'reference-model oracle on bounded-exhaustive executions of the real functions', 'DESIGN.md section 4 C12')
check('C13', 'exploration',
      'The real Deserializer/Tx.serialize and the real OnDiskBlock.iter_txs/iter_txs_reversed are executed on generated transactions (varint-width boundaries, every strict prefix) and on real block files for every chunk size from 9 bytes to beyond the block size; the oracle is the generator\'s own construction data. Every alignment of tx boundaries to chunk boundaries up to the bound is actually executed, which a handful of unit-test inputs cannot do.',
      'generator serialiser is ground truth; chunk sizes < 9 bytes excluded; blocks above the size bound are sampled, not exhausted',
      'differential oracle (construction data) over bounded-exhaustive chunk sizes and truncation points of the real parser', 'DESIGN.md section 4 C13')
check('C20', 'exploration',
      'All call sequences the surrounding system permits up to length 6 (quick) / 7 (thorough) are executed on the real Notifications object (DFS with state copies, unique token per hand-over) under an online monitor for both clauses; plus random long words. The component is small and loop-owned, so bounded-exhaustive monitoring of the real object is the strongest runtime evidence available.',
      'environment model of permitted sequences (validated against real traces in the C07 runs); start-up counts for clause (a) only; join rule evaluated for tokens handed over at or before the earlier of the two latest reports',
      'online trace monitor (conservation + ordering) on bounded-exhaustive executions of the real object', 'DESIGN.md section 4 C20')
_IDX_NOTE = 'trusted: CPython/asyncio, plyvel/LevelDB, the generator+reference model (independent of electrumx, cross-checked by fresh-index differentials); interleavings explored at failpoint granularity (DB get/put/iterator/batch commit, logical file read/write, job start/end); chains bounded (<=300 blocks quick<=60)'
check('C01', 'exploration',
      'The real Controller.serve indexes generated valid chains from a simulated bitcoind under seeded flush vectors, prefetch limits, reorg limits and job interleavings; at every observed catch-up all UTXO observables (per-script UTXO multisets, balances, counts, lookup_utxos, raw u/h rows, session get_balance/listunspent) are diffed against an independent reference model. Monitor counters prove collisions were resolved from disk, history-only flushes happened, both sides of the OP_RETURN rule occurred.',
      _IDX_NOTE, 'reference-model oracle on generated executions of the real server (simulated daemon, virtual time, gated executor)', 'DESIGN.md section 4 C01')
check('C02', 'exploration',
      'Same executions as C01, judged on history observables: limited_history for every script hash and a set of limits, fs_tx_hash for every tx number, tx hashes per height, concatenated raw history rows, get_history through a real session.',
      _IDX_NOTE, 'reference-model oracle on generated executions of the real server', 'DESIGN.md section 4 C02')
check('C03', 'exploration',
      'Generated admissible fork histories (every depth up to the limit, equal/shorter branches then extension, mid-batch discovery, back-to-back forks, forced reorgs with and without daemon switch) are executed by the real server; at every observed catch-up every observable incl. raw table rows equals the reference model of the daemon chain, and (quarter of quick cases, all thorough) a fresh index built by the real code from the final chain.',
      _IDX_NOTE + '; admissibility rule for generated forks documented in exv/scen.py (undo existence per block)', 'reference-model + fresh-index differential oracle over generated reorg histories of the real server', 'DESIGN.md section 4 C03')
check('C15', 'exploration',
      'REORG_LIMIT x indexing mode (initial sync, caught up, before restart, restart mid-sync, daemon jumping) x probe depth limit-1/limit/limit+1 natural or forced; monitors on undo keys after every database open and at every catch-up, plus the C03 comparison after the probe reorg. limit+1 outcomes are recorded, not judged.',
      _IDX_NOTE, 'invariant monitor on undo keys + reference-model oracle over generated restart/reorg histories', 'DESIGN.md section 4 C15')
check('C18', 'fault_enumeration',
      'Every fault word up to length 3 (quick) / 4 (thorough; longer sampled, random up to 40, permanently-down URLs) over the fault alphabet is injected into the real Daemon object through a simulated HTTP session in virtual time, for every call kind, 1..3 URLs and two retry settings, with the world changing at every attempt; an offline checker over the attempt log decides result genuineness, positional alignment, error raising, fail-over discipline and block-file equality. "Eventually" is restated as: the call returns at the first fault-free attempt and never stays more than doublings+1 attempts on one URL.',
      'faults are raised by the simulated session using aiohttp\'s own exception classes; real sockets are not exercised; unbounded fault sequences out of reach',
      'fault-sequence enumeration with an offline attempt-log checker on the real Daemon class', 'DESIGN.md section 4 C18')
check('C19', 'exploration',
      'The real PeerManager.on_peers_subscribe is called on constructed peer populations (all verification ages incl. boundaries, bad flags, public/private/special v4/v6, hostnames valid/invalid, onion, shared buckets, own identities) for tor and non-tor requesters with repeated random draws under a shimmed clock; every advertised tuple is judged by an independent address-class table and hostname grammar, and bucket/onion bounds are recomputed independently. Peer.peers_from_features and on_add_peer are driven with generated JSON feature dictionaries (real getaddrinfo).',
      'ipaddress literal parsing trusted; ambiguous hostnames (underscore, trailing dot, non-ASCII, upper-case LOCALHOST) counted but not judged; peer monitoring tasks stubbed so no connections are attempted',
      'independent-table oracle over generated populations and feature dictionaries driving the real functions', 'DESIGN.md section 4 C19')
