# Table of claimed checks; consumed by tools_manifest.py
NOT_YET = {}
check('C12', 'exploration',
      'Bounded-exhaustive driving of the real Merkle/MerkleCache with an independent recursive definition as oracle: every list length up to the bound x every index, every power-of-two boundary up to 2^62, random cache initialise/extend/truncate/query sequences compared with from-scratch results. Right level: the component is pure and small, so the monitor can see every (length,index) up to the bound.',
      'hashlib SHA-256; lengths beyond the bound are not observed',
      'reference-model oracle on bounded-exhaustive executions of the real functions', 'DESIGN.md section 4 C12')
check('C13', 'exploration',
      'The real Deserializer/Tx.serialize and the real OnDiskBlock.iter_txs/iter_txs_reversed are executed on generated transactions (varint-width boundaries, every strict prefix) and on real block files for every chunk size from 9 bytes to beyond the block size; the oracle is the generator\'s own construction data. Every alignment of tx boundaries to chunk boundaries up to the bound is actually executed, which a handful of unit-test inputs cannot do.',
      'generator serialiser is ground truth; chunk sizes < 9 bytes excluded; blocks above the size bound are sampled, not exhausted',
      'differential oracle (construction data) over bounded-exhaustive chunk sizes and truncation points of the real parser', 'DESIGN.md section 4 C13')
check('C20', 'exploration',
      'All call sequences the surrounding system permits up to length 6 (quick) / 7 (thorough) are executed on the real Notifications object (DFS with state copies, unique token per hand-over) under an online monitor for both clauses; plus random long words. The component is small and loop-owned, so bounded-exhaustive monitoring of the real object is the strongest runtime evidence available.',
      'environment model of permitted sequences (validated against real traces in the C07 runs); start-up counts for clause (a) only; join rule evaluated for tokens handed over at or before the earlier of the two latest reports',
      'online trace monitor (conservation + ordering) on bounded-exhaustive executions of the real object', 'DESIGN.md section 4 C20')
