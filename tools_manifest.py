#!/usr/bin/env python3
'''Regenerates MANIFEST.json from the table below (keeps it valid at all times).'''
import json, os
HERE = os.path.dirname(os.path.abspath(__file__))
BASE = "cd /repo && /venv/bin/python -m pytest -ra -q -p no:cacheprovider --timeout=900 --continue-on-collection-errors"

CHECKS = {}
def check(pid, category, text, note, technique, design):
    CHECKS[pid] = dict(category=category, text=text, note=note, technique=technique, design=design)

exec(open(os.path.join(HERE, 'manifest_table.py')).read())

props = [json.loads(l)['id'] for l in open(os.path.join(HERE, 'properties.jsonl'))]
man = {
 "version": 1,
 "setup_cmd": "true",
 "hooks": {"guard": "ELECTRUMX_VERIF", "enable": "no in-repo hooks: every monitor and failpoint is installed from the harness process by wrapping (./check sets ELECTRUMX_VERIF=1 for its children; no repository line reads it)",
           "baseline_off_cmd": BASE, "source_commits": [], "add_only": True},
 "engines": [{"name": "exv", "path": "exv/", "serves_properties": sorted(CHECKS),
              "kind_free_text": "runtime monitors + reference-model oracles over executions of the real electrumx code (simulated bitcoind, virtual-time loop, gated executor, process-death injection)"}],
 "checks": [],
 "not_applicable": [],
 "notes": "Exit codes: 0 held on everything observed, 1 VIOLATION, 2 INCONCLUSIVE (monitor floors not reached / watchdog). See DESIGN.md."
}
for pid in props:
    if pid in CHECKS:
        c = CHECKS[pid]
        man["checks"].append({
            "property_id": pid, "quick_cmd": f"./check {pid}", "thorough_cmd": f"./check {pid} --tier thorough",
            "evidence_file": f"evidence/{pid}.json", "replay_cmd_template": f"./check {pid} --replay {{path}}",
            "engine": "exv",
            "level_claimed": {"category": c['category'], "text": c['text'], "design_ref": c['design']},
            "level_note": c['note'], "technique": c['technique']})
    else:
        man["not_applicable"].append({"property_id": pid, "reason": NOT_YET.get(pid, "check not built yet (runtime monitoring applies; see DESIGN.md section 4)")})
json.dump(man, open(os.path.join(HERE, 'MANIFEST.json'), 'w'), indent=1)
print('checks:', sorted(CHECKS), 'not claimed:', [x['property_id'] for x in man['not_applicable']])
