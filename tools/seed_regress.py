#!/usr/bin/env python3
'''Applies every filed seeded change to /repo in turn, runs the quick check that meta.json names as catching it
(its own property's check otherwise), reverts, and writes seeded/REGRESSION.md.

Mutates /repo while it runs (always reverted) and overwrites evidence/*.json with runs on changed trees: regenerate the
evidence afterwards (./check Cxx on the unchanged tree).'''
import json
import os
import re
import subprocess
import sys

HERE = os.path.dirname(os.path.dirname(os.path.abspath(__file__)))
os.chdir(HERE)


def sh(*a, **kw):
    return subprocess.run(a, stdout=subprocess.PIPE, stderr=subprocess.STDOUT, text=True, **kw)


head = sh('git', '-C', '/repo', 'log', '--format=%h', '-1').stdout.strip()
rows = []
only = {n for a in sys.argv[1:] for n in sorted(os.listdir('seeded')) if n == a or n.startswith(a + '-')}
for n in sorted(os.listdir('seeded')):
    d = os.path.join('seeded', n)
    if not os.path.isfile(os.path.join(d, 'patch.diff')) or (only and n not in only):
        continue
    prop = n.split('-')[0]
    meta = {}
    try:
        meta = json.load(open(os.path.join(d, 'meta.json')))
    except Exception:    # noqa
        pass
    caught_by = meta.get('caught_by', '')
    expect_miss = caught_by.startswith('NOT CAUGHT')
    m = re.search(r'C\d\d', caught_by)
    check = m.group(0) if m and not expect_miss else prop
    if sh('git', '-C', '/repo', 'status', '--short').stdout.strip():
        print('repo dirty')
        sys.exit(2)
    if sh('git', '-C', '/repo', 'apply', os.path.join(HERE, d, 'patch.diff')).returncode:
        rows.append((n, check, 'PATCH DOES NOT APPLY', ''))
        continue
    try:
        r = sh('./check', check, timeout=1800)
        code, out = r.returncode, r.stdout
    except subprocess.TimeoutExpired:
        code, out = 99, ''
    finally:
        sh('git', '-C', '/repo', 'checkout', '--', '.')
    key = ''
    for line in out.splitlines():
        if line.startswith('  key='):
            key = line[6:96].replace('|', '/')
            break
    outcome = {1: 'caught', 0: 'MISSED (expected, see meta.json)' if expect_miss else 'MISSED'}.get(code, f'inconclusive({code})')
    rows.append((n, check, outcome, key))
    print(n, check, outcome, key[:60], flush=True)
if only and os.path.exists('seeded/REGRESSION.md'):
    # partial run: keep the rows of the changes not re-run
    done = {r[0] for r in rows}
    for line in open('seeded/REGRESSION.md'):
        cells = [c.strip() for c in line.strip().strip('|').split(' | ')]
        if len(cells) == 4 and re.match(r'C\d\d-\d+$', cells[0]) and cells[0] not in done:
            rows.append(tuple(cells))
    rows.sort()
with open('seeded/REGRESSION.md', 'w') as f:
    f.write(f'# Seeded changes vs quick checks (tools/seed_regress.py, /repo {head}, seed 0)\n\n')
    f.write('Each change is applied to /repo, the quick check named in its meta.json is run, the change is reverted.\n\n')
    f.write('| seed | check | outcome | first key |\n|---|---|---|---|\n')
    for r in rows:
        f.write('| ' + ' | '.join(r) + ' |\n')
    caught = sum(1 for r in rows if r[2] == 'caught')
    f.write(f'\n{caught} of {len(rows)} caught.\n')
print('done')
