#!/usr/bin/env python3
'''Own-use mutation helper: apply textual replacement(s) to /repo's working tree, run a command, restore.
usage: mutate.py FILE 'old' 'new' -- cmd...   (never commits; always restores with git checkout)'''
import subprocess, sys
args = sys.argv[1:]
i = args.index('--')
spec, cmd = args[:i], args[i + 1:]
assert len(spec) % 3 == 0
try:
    for j in range(0, len(spec), 3):
        f, old, new = spec[j:j + 3]
        p = '/repo/' + f
        s = open(p).read()
        assert old in s, f'pattern not found in {f}: {old!r}'
        open(p, 'w').write(s.replace(old, new, 1))
    r = subprocess.run(cmd)
    print('exit', r.returncode)
finally:
    subprocess.run(['git', '-C', '/repo', 'checkout', '--', '.'])
    print(subprocess.run(['git', '-C', '/repo', 'status', '--short'], capture_output=True, text=True).stdout or 'repo clean')
