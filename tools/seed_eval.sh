#!/bin/sh
# usage: tools/seed_eval.sh <diff> <check id> [more check ids...]   -- applies a seeded change to /repo, runs the quick checks, reverts
D="$1"; shift
cd /repo || exit 2
git status --short | grep -q . && { echo "repo dirty"; exit 2; }
git apply "$D" || { echo "APPLY FAILED"; exit 2; }
cd /verif
for c in "$@"; do
  timeout ${SEED_TIMEOUT:-900} ./check $c ${SEED_TIER:+--tier $SEED_TIER} 2>&1 | grep -E "VIOLATION|  key=|held|INCONCLUSIVE|KNOWN" | cut -c1-260 | head -${SEED_LINES:-4}
done
git -C /repo checkout -- . ; git -C /repo status --short
