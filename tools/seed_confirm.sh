#!/bin/sh
# usage: tools/seed_confirm.sh <PROP> <n>   -- confirms a sub-agent's seeded change in its scratch worktree and files it under seeded/
P="$1"; N="$2"; T="${3:-$N}"; WT=/tmp/${WTPFX:-wt}-$P; OUT=/tmp/${OUTPFX:-out}-$P
DEMO=$(ls $OUT/demo$N*.py 2>/dev/null | head -1)
[ -f "$OUT/change$N.diff" ] && [ -n "$DEMO" ] || { echo "missing deliverables"; exit 2; }
cd $WT || exit 2
git checkout -q -- . ; git status --short | grep -q . && { echo "worktree dirty"; git status --short | head; }
git apply "$OUT/change$N.diff" || { echo "APPLY FAILED"; exit 2; }
SUITE=$(PYTHONPATH=$WT timeout 600 /venv/bin/python -m pytest -q -p no:cacheprovider 2>&1 | tail -1)
(cd $WT && PYTHONPATH=$WT timeout 300 /venv/bin/python "$DEMO" >/tmp/demo-with.log 2>&1); WITH=$?
git checkout -q -- .
(cd $WT && PYTHONPATH=$WT timeout 300 /venv/bin/python "$DEMO" >/tmp/demo-without.log 2>&1); WITHOUT=$?
echo "$P-$T suite: $SUITE | demo with change exit=$WITH | demo pristine exit=$WITHOUT"
if [ "$WITH" != 0 ] && [ "$WITHOUT" = 0 ] && echo "$SUITE" | grep -q "1 failed, 142 passed"; then
  D=/verif/seeded/$P-$T; mkdir -p $D
  cp "$OUT/change$N.diff" $D/patch.diff; cp "$DEMO" $D/; [ -f $OUT/notes$N.md ] && cp $OUT/notes$N.md $D/notes.md
  echo "CONFIRMED -> $D"
else
  echo "NOT CONFIRMED"; tail -5 /tmp/demo-with.log; tail -5 /tmp/demo-without.log
fi
