#!/usr/bin/env python3
'''usage: seed_meta.py <dir name> <property> <needs> <caught_by> [note]  -> writes seeded/<dir>/meta.json'''
import json, sys, os
d, prop, needs, caught = sys.argv[1:5]
note = sys.argv[5] if len(sys.argv) > 5 else ''
path = os.path.join(os.path.dirname(os.path.dirname(os.path.abspath(__file__))), 'seeded', d)
demo = [f for f in os.listdir(path) if f.startswith('demo')]
meta = {'breaks_property': prop, 'origin': 'independent sub-agent given only the property text and a scratch worktree',
        'needs_to_manifest': needs,
        'confirmed_by': ['git apply patch.diff in a scratch worktree of /repo HEAD',
                         'pytest -q -p no:cacheprovider -> 1 failed (known test_compaction), 142 passed: same as pristine',
                         f'{demo[0] if demo else "demo"}: exit != 0 with the change, exit 0 on the pristine worktree'],
        'checked_with': f'git -C /repo apply seeded/{d}/patch.diff; ./check {prop}; git -C /repo checkout -- .',
        'caught_by': caught, 'note': note}
json.dump(meta, open(os.path.join(path, 'meta.json'), 'w'), indent=1)
print('wrote', path)
