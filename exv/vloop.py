'''Virtual-time event loop, gated executor (controlled scheduling of run_in_thread jobs) and
failpoints installed from outside the repository.

Exactly one thread runs at any time: the loop thread or one job thread.  A *schedule* is the
sequence of choices "run one loop iteration | advance job j by one segment", made inside the
selector's select() wrapper by a seeded policy; it is recorded and hashed.'''
import asyncio
import concurrent.futures as cf
import hashlib
import os
import random
import threading


class Budget(Exception):
    '''Logical budget (virtual time / jobs / iterations) exhausted: the run is inconclusive.'''


class Quiescent(Exception):
    '''No timers, no I/O, no jobs: the loop would block for ever.'''


# ---------------------------------------------------------------------------------------
# failpoints / durable-event counter (process-wide; one scenario per forked child)

class Gate:
    enabled = True          # park jobs at failpoints
    counter = 0             # durable events seen
    log = []                # (n, label)
    crash_at = None         # durable event number at which to die (before the event)
    torn = None             # None, or fraction/int: die after writing only part of that file write
    on_event = None         # optional callback(label) for monitors (runs in whichever thread hits it)
    labels_seen = set()


_tl = threading.local()


def current_job():
    return getattr(_tl, 'job', None)


def point(label):
    '''A failpoint.  Durable events ("D:...") are counted and may kill the process; inside a gated job
    every failpoint parks the job until the scheduler advances it.'''
    if label.startswith('D:'):
        Gate.counter += 1
        Gate.log.append((Gate.counter, label))
        if Gate.on_event is not None:
            Gate.on_event(label)       # logged before the event happens (and before a cut)
        if Gate.crash_at == Gate.counter:
            os._exit(77)
    elif Gate.on_event is not None:
        Gate.on_event(label)
    job = getattr(_tl, 'job', None)
    if job is None or not Gate.enabled:
        return
    job.label = label
    job.parked.set()
    job.go.wait()
    job.go.clear()


class Job:
    __slots__ = ('fn', 'args', 'fut', 'jid', 'go', 'parked', 'done', 'label', 'name', 'running', 'skipped',
                 'waited', 'longpark', 'park_secs', 'release_at')

    def __init__(self, fn, args, fut, jid):
        self.fn, self.args, self.fut, self.jid = fn, args, fut, jid
        self.go = threading.Event()
        self.parked = threading.Event()
        self.done = False
        self.skipped = False
        self.running = False
        self.label = 'start'
        self.waited = 0
        self.longpark = False     # True: held wherever it is (bounded by decisions); 'job-end': held once, work done,
        self.park_secs = 20.0     # result undelivered, for park_secs virtual seconds
        self.release_at = None
        name = getattr(fn, '__qualname__', None) or getattr(fn, '__name__', None) or repr(fn)
        self.name = name.split('.<locals>.')[-1]


class GatedExecutor(cf.ThreadPoolExecutor):
    '''Every submitted job runs in its own real thread but only while it holds the token.'''

    def __init__(self, trace, mark_running_at_submit=True):
        super().__init__(max_workers=1)
        self.jobs = []
        self.n = 0
        self.trace = trace
        self.mark_running_at_submit = mark_running_at_submit
        self.on_submit = None
        self.on_done = None
        self.finished = 0

    def submit(self, fn, *args, **kw):
        fut = cf.Future()
        self.n += 1
        job = Job(fn, args, fut, self.n)
        if self.mark_running_at_submit:
            # an idle pool thread picks the job up at once: it can no longer be cancelled
            fut.set_running_or_notify_cancel()
            job.running = True
        self.jobs.append(job)
        if self.on_submit:
            self.on_submit(job)
        t = threading.Thread(target=self._run, args=(job,), daemon=True)
        t.start()
        job.parked.wait()
        job.parked.clear()
        return fut

    def _run(self, job):
        _tl.job = job
        job.parked.set()
        job.go.wait()
        job.go.clear()
        if not job.running and not job.fut.set_running_or_notify_cancel():
            job.done = True
            job.skipped = True
            job.parked.set()
            return
        job.running = True
        is_file_write = getattr(job.fn, '__name__', '') == 'write' and not hasattr(job.fn, '__code__')
        try:
            if is_file_write:
                point('D:blockfile:write')
            res = job.fn(*job.args)
            point('job-end')
        except BaseException as e:    # noqa
            job.done = True
            job.fut.set_exception(e)
        else:
            job.done = True
            job.fut.set_result(res)
        job.parked.set()

    def step(self, job):
        self.trace.append((job.jid, job.label))
        job.waited = 0
        job.go.set()
        job.parked.wait()
        job.parked.clear()
        if job.done:
            self.jobs.remove(job)
            self.finished += 1
            if self.on_done:
                self.on_done(job)

    def run_to_end(self, job):
        while not job.done:
            self.step(job)

    def drain(self):
        while self.jobs:
            self.run_to_end(self.jobs[0])

    def shutdown(self, wait=True, **kw):
        pass


class VLoop(asyncio.SelectorEventLoop):
    '''SelectorEventLoop with virtual time and a scheduling policy for gated jobs.

    policy: 'eager' (jobs run atomically as soon as the loop yields), 'lazy' (jobs advance only when the
    loop is otherwise idle), 'random' (probability p per busy iteration), 'pct' (priority-based with d
    change points).  max_park bounds how many scheduler decisions a job may stay parked.'''

    def __init__(self, seed=0, policy='random', p=0.3, max_park=60, chooser=None,
                 max_vtime=3000.0, max_jobs=20000, max_iter=400000, pct_d=3):
        super().__init__()
        self.vt = 0.0
        self.rng = random.Random(seed)
        self.trace = []
        self.iter = 0
        self.hooks = []
        self.gex = GatedExecutor(self.trace)
        self.set_default_executor(self.gex)
        self.policy, self.p, self.max_park, self.chooser = policy, p, max_park, chooser
        self.max_vtime, self.max_jobs, self.max_iter = max_vtime, max_jobs, max_iter
        self.decisions = 0
        self._pct_changes = sorted(self.rng.randrange(1, 400) for _ in range(pct_d)) if policy == 'pct' else []
        self._pct_prio = {}
        orig = self._selector.select

        def select(timeout=None):
            self.iter += 1
            if self.vt > self.max_vtime or self.gex.n > self.max_jobs or self.iter > self.max_iter:
                raise Budget(f'vt={self.vt:.0f} jobs={self.gex.n} iter={self.iter}')
            for h in self.hooks:
                h(self)
            busy = timeout == 0
            jobs = self.gex.jobs
            if jobs:
                pick = self._choose(jobs, busy)
                if pick is not None:
                    if self.policy == 'eager' and self.chooser is None:
                        # atomically to its end - or to a point at which it is to be held
                        self.gex.step(pick)
                        while not pick.done and not self._held(pick):
                            self.gex.step(pick)
                    else:
                        self.gex.step(pick)
                    return orig(0)
                for j in jobs:
                    j.waited += 1
            if busy:
                return orig(0)
            ev = orig(0)
            if ev:
                return ev
            if timeout is None:
                if jobs:
                    # nothing else can ever happen: the parked job must run
                    self.gex.step(jobs[0])
                    return orig(0)
                raise Quiescent('no timers, no I/O, no jobs')
            # advance virtual time to the next timer - but not past the release time of a held job
            holds = [j.release_at - self.vt for j in jobs if j.release_at is not None and j.release_at > self.vt]
            self.vt += min([timeout] + holds)
            return []
        self._selector.select = select

    def time(self):
        return self.vt

    def _held(self, j):
        if j.longpark is True:
            # held wherever it is: bounded by decisions and by virtual time (a blocked thread comes back eventually)
            if j.release_at is None:
                j.release_at = self.vt + 120.0
            return self.vt < j.release_at
        if isinstance(j.longpark, str) and j.label == j.longpark:
            # held before it starts ('start'), where its work is done but its result not yet delivered ('job-end'), or at a named
            # failpoint label (e.g. right before a particular file write), for a bounded virtual time
            if j.release_at is None:
                j.release_at = self.vt + j.park_secs
            return self.vt < j.release_at
        return False

    def _choose(self, jobs, busy):
        self.decisions += 1
        if self.chooser is not None:
            return self.chooser(self, jobs, busy)
        lp = self._held
        overdue = [j for j in jobs if (j.waited >= 2000 if j.longpark is True else (not lp(j) and j.waited >= self.max_park))]
        if overdue:
            return overdue[0]
        pol = self.policy
        if pol == 'eager':
            for j in jobs:
                if not lp(j):
                    return j
            return None
        if not busy:
            cands = [j for j in jobs if not lp(j)]
            return self.rng.choice(cands) if cands else None
        if pol == 'lazy':
            return None
        if pol == 'random':
            if self.rng.random() < self.p:
                cands = [j for j in jobs if not lp(j)] or None
                return self.rng.choice(cands) if cands else None
            return None
        if pol == 'pct':
            # each job and the loop get random priorities; at change points the top one is demoted
            for j in jobs:
                if j.jid not in self._pct_prio:
                    self._pct_prio[j.jid] = self.rng.random()
            if 0 not in self._pct_prio:
                self._pct_prio[0] = self.rng.random()
            if self._pct_changes and self.decisions >= self._pct_changes[0]:
                self._pct_changes.pop(0)
                top = max([0] + [j.jid for j in jobs], key=lambda k: self._pct_prio[k])
                self._pct_prio[top] = -self.rng.random()
            best = max(jobs, key=lambda j: self._pct_prio[j.jid])
            if self._pct_prio[best.jid] > self._pct_prio[0]:
                return best
            return None
        return None

    def schedule_hash(self):
        h = hashlib.sha256()
        for jid, label in self.trace:
            h.update(f'{jid}:{label};'.encode())
        return h.hexdigest()[:16]


# ---------------------------------------------------------------------------------------
# failpoint installation (wrapping from the harness process only)

def install_failpoints():
    import electrumx.server.storage as storage
    import electrumx.lib.util as util
    if getattr(storage.LevelDB, '_exv', False):
        return
    storage.LevelDB._exv = True
    orig_open = storage.LevelDB.open

    def open_(self, name, create):
        orig_open(self, name, create)
        wb, put, get, it = self.write_batch, self.put, self.get, self.iterator

        class WB:
            def __init__(s):
                s.b = wb()

            def __enter__(s):
                point(f'{name}:batch-begin')
                return s.b.__enter__()

            def __exit__(s, *a):
                if a[0] is None:
                    point(f'D:{name}:commit')
                r = s.b.__exit__(*a)
                point(f'{name}:post-commit')
                return r
        self.write_batch = WB

        def put_(k, v):
            point(f'D:{name}:put')
            return put(k, v)
        self.put = put_

        def get_(k):
            point(f'{name}:get')
            return get(k)
        self.get = get_

        def it_(*a, **k):
            point(f'{name}:iter')
            return it(*a, **k)
        self.iterator = it_
    storage.LevelDB.open = open_

    ow, ord_ = util.LogicalFile.write, util.LogicalFile.read

    def w(self, start, b):
        kind = self.filename_fmt.split('/')[-1].split('{')[0]
        if b and Gate.crash_at == Gate.counter + 1 and Gate.torn is not None:
            n = len(b)
            if isinstance(Gate.torn, float):
                p = int(n * Gate.torn)
            else:
                p = Gate.torn if Gate.torn >= 0 else n + Gate.torn
            p = max(1, min(n - 1, p)) if n > 1 else 0
            Gate.counter += 1
            Gate.log.append((Gate.counter, f'D:file:{kind}:write TORN {p}/{n}'))
            if Gate.on_event is not None:
                Gate.on_event(f'D:file:{kind}:write')
            if p:
                ow(self, start, bytes(b[:p]))
            os._exit(77)
        point(f'D:file:{kind}:write')
        r = ow(self, start, b)
        point(f'file:{kind}:written')
        return r

    def r(self, start, size=-1):
        kind = self.filename_fmt.split('/')[-1].split('{')[0]
        point(f'file:{kind}:read')
        return ord_(self, start, size)
    util.LogicalFile.write = w
    util.LogicalFile.read = r


def run_vloop(main, *, seed=0, policy='random', **kw):
    '''Run coroutine function main(loop) to completion on a fresh VLoop; returns (result, loop).'''
    loop = VLoop(seed=seed, policy=policy, **kw)
    asyncio.set_event_loop(loop)
    try:
        res = loop.run_until_complete(main(loop))
        return res, loop
    finally:
        try:
            loop.gex.drain()
        except Exception:    # noqa
            pass
