'''Reference model ("the judge").  Independent of electrumx: derives from a list of blocks and a
daemon mempool what the statements of C01-C11 say the server must report.'''
import hashlib
import itertools

from exv.chainsim import (ZERO32, MINUS1, unspendable, hashx, merkle_root, dsha, GENESIS_ACT)


def hex_rev(h):
    return bytes(h)[::-1].hex()


class ChainOracle:
    def __init__(self, chain, activation=GENESIS_ACT):
        self.activation = activation
        self.chain = []
        self.utxo = {}       # outpoint -> (script, value, height)
        self.hist = {}       # hashX -> [(tx_hash, height)]  (chain order, once per tx)
        self.txnum = []      # tx_num -> (tx_hash, height)
        self.tx_counts = []  # cumulative per height
        self.chain_size = 0
        self.spent = {}      # outpoint -> (script, value, height) of everything ever spent
        for b in chain:
            self.extend(b)

    def extend(self, b):
        assert b.height == len(self.chain)
        self.chain.append(b)
        for t in b.txs:
            touched = []
            for (ph, pi, _s, _q) in t.ins:
                if ph == ZERO32 and pi == MINUS1:
                    continue
                ent = self.utxo.pop((ph, pi))
                self.spent[(ph, pi)] = ent
                touched.append(hashx(ent[0]))
            for i, (v, s) in enumerate(t.outs):
                if unspendable(s, b.height, self.activation):
                    continue
                self.utxo[(t.hash, i)] = (s, v, b.height)
                touched.append(hashx(s))
            for k in dict.fromkeys(touched):
                self.hist.setdefault(k, []).append((t.hash, b.height))
            self.txnum.append((t.hash, b.height))
        self.tx_counts.append(len(self.txnum))
        self.chain_size += len(b.raw)

    # -- observables
    @property
    def height(self):
        return len(self.chain) - 1

    def state(self):
        return dict(height=self.height, tip=self.chain[-1].hash, tx_count=len(self.txnum),
                    utxo_count=len(self.utxo), chain_size=self.chain_size)

    def headers(self):
        return b''.join(b.header for b in self.chain)

    def block_hashes(self):
        return [b.hash for b in self.chain]

    def tx_hashes_at(self, h):
        return [t.hash for t in self.chain[h].txs]

    def history(self, hx, limit=None):
        full = self.hist.get(hx, [])
        return list(full) if limit is None else list(full[:limit])

    def utxos_of(self, hx):
        return sorted((o[0], o[1], v, h) for o, (s, v, h) in self.utxo.items() if hashx(s) == hx)

    def balance(self, hx):
        return sum(v for o, (s, v, h) in self.utxo.items() if hashx(s) == hx)

    def lookup(self, outpoint):
        ent = self.utxo.get(outpoint)
        if ent is None:
            return None
        return (hashx(ent[0]), ent[1])

    def all_hashxs(self):
        ks = set(self.hist)
        return ks

    def header_merkle_root(self, cp_height):
        return merkle_root([b.hash for b in self.chain[:cp_height + 1]])

    def u_rows(self):
        '''The (hashX, tx_pos, tx_num) -> value rows a UTXO table must contain, as a set.'''
        num = {}
        for n, (h, _ht) in enumerate(self.txnum):
            num[h] = n     # no duplicate txids in generated chains
        return {(hashx(s), o[1], num[o[0]], v) for o, (s, v, h) in self.utxo.items()}


class MempoolOracle:
    '''What the daemon mempool and the confirmed UTXO set imply (C08).'''

    def __init__(self, chain_oracle, mempool):
        self.co = chain_oracle
        self.mempool = dict(mempool)
        self.info = {}     # tx hash -> dict(ins=[(hashX,value)], outs=[(hashX,value)], fee, unconf, genlike)
        self.by_hx = {}
        for h, t in self.mempool.items():
            ins, unconf, genlike = [], False, False
            for (ph, pi, _s, _q) in t.ins:
                if ph == ZERO32 and pi == MINUS1:
                    genlike = True
                    continue
                if ph in self.mempool:
                    unconf = True
                    v, s = self.mempool[ph].outs[pi]
                else:
                    s, v, _h = chain_oracle.utxo[(ph, pi)]
                ins.append((hashx(s), v))
            outs = [(hashx(s), v) for (v, s) in t.outs]
            fee = max(0, sum(v for _, v in ins) - sum(v for _, v in outs))
            self.info[h] = dict(ins=ins, outs=outs, fee=fee, unconf=unconf, genlike=genlike)
            for k, _v in ins + outs:
                self.by_hx.setdefault(k, set()).add(h)

    def tx_set(self, hx):
        return set(self.by_hx.get(hx, ()))

    def summaries(self, hx):
        return {(h, self.info[h]['fee'], self.info[h]['unconf']) for h in self.by_hx.get(hx, ())}

    def balance_delta(self, hx):
        d = 0
        for h in self.by_hx.get(hx, ()):
            i = self.info[h]
            d -= sum(v for k, v in i['ins'] if k == hx)
            d += sum(v for k, v in i['outs'] if k == hx)
        return d

    def unconfirmed_utxos(self, hx):
        out = []
        for h in self.by_hx.get(hx, ()):
            for pos, (k, v) in enumerate(self.info[h]['outs']):
                if k == hx:
                    out.append((h, pos, v))
        return sorted(out)

    def true_spends(self, hx):
        '''Prevouts spent by mempool txs whose spent output belongs to hx.'''
        res = set()
        for h, t in self.mempool.items():
            for (ph, pi) in t.prevouts():
                if ph in self.mempool:
                    v, s = self.mempool[ph].outs[pi]
                else:
                    s = self.co.utxo[(ph, pi)][0]
                if hashx(s) == hx:
                    res.add((ph, pi))
        return res

    def touching_prevouts(self, hx):
        res = set()
        for h in self.by_hx.get(hx, ()):
            res.update(self.mempool[h].prevouts())
        return res


def status_of(confirmed, mempool_items):
    '''Protocol status (docs/protocol-basics.rst) for one fixed ordering.'''
    s = ''.join(f'{hex_rev(h)}:{ht:d}:' for h, ht in confirmed)
    s += ''.join(f'{hex_rev(h)}:{-1 if unconf else 0:d}:' for h, unconf in mempool_items)
    if not s:
        return None
    return hashlib.sha256(s.encode()).hexdigest()


def admissible_statuses(co, mo, hx, max_perm=6):
    '''Set of statuses the protocol allows for hx (mempool order is free).  Returns (set, exact);
    exact False when there are too many mempool txs to enumerate the orderings.'''
    confirmed = co.history(hx)
    items = sorted((h, mo.info[h]['unconf']) for h in mo.by_hx.get(hx, ())) if mo else []
    if len(items) > max_perm:
        return {status_of(confirmed, items)}, False
    return {status_of(confirmed, p) for p in itertools.permutations(items)}, True
