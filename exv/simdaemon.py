'''Simulated bitcoind under the *real* electrumx Daemon class: replaces only its aiohttp session.

SimSession.post/get parse the JSON-RPC / REST request exactly as bitcoind would see it and answer
from the World.  Per call a script may add virtual latency, mutate the world before answering, or
inject a fault.'''
import asyncio
import json

import aiohttp


class Resp:
    def __init__(self, content_type, body=None, chunks=None, status=200, reason='OK', pre=None,
                 stream_fault=None):
        self.headers = {'Content-Type': content_type} if content_type else {}
        self._body, self.status, self.reason, self._pre = body, status, reason, pre
        outer = self

        class Content:
            def iter_chunks(self_inner):
                async def gen():
                    for n, c in enumerate(chunks or []):
                        if stream_fault is not None and n == stream_fault[0]:
                            raise stream_fault[1]
                        yield c, True
                    if stream_fault is not None and stream_fault[0] >= len(chunks or []):
                        raise stream_fault[1]
                return gen()
        self.content = Content()
        del outer

    async def __aenter__(self):
        if self._pre:
            await self._pre()
        return self

    async def __aexit__(self, *a):
        return False

    async def json(self):
        return self._body

    async def text(self):
        return self._body if isinstance(self._body, str) else json.dumps(self._body)


FAULT_EXC = {
    'timeout': lambda: asyncio.TimeoutError(),
    'disconnect': lambda: aiohttp.ServerDisconnectedError(),
    'reset': lambda: ConnectionResetError('sim reset'),
    'connerr': lambda: aiohttp.ClientConnectionError('sim connection refused'),
    'payload': lambda: aiohttp.ClientPayloadError('sim payload'),
    'oserr': lambda: aiohttp.ClientOSError(111, 'sim os error'),
}
FAULT_HTTP = {
    'http503': (503, 'Service Unavailable', 'Work queue depth exceeded'),
    'http500': (500, 'Internal Server Error', ''),
}


class SimSession:
    '''Stands in for aiohttp.ClientSession.

    script(info) -> dict or None, called once per HTTP request with
    info = {'n': request number, 'kind': 'post'|'get', 'method': ..., 'batch': int|None, 'url': ...}
    and may return {'latency': secs, 'fault': kind, 'mutate': callable}.'''

    def __init__(self, world, txindex=False, chunk=4096):
        self.world = world
        self.txindex = txindex
        self.chunk = chunk
        self.calls = []
        self.script = None
        self.closed = False
        self.broadcasts = []

    # -- bitcoind
    def handle(self, req):
        m = req.get('method')
        p = req.get('params', [])
        w = self.world

        def ok(r):
            return {'result': r, 'error': None, 'id': req.get('id')}

        def err(c, msg):
            return {'result': None, 'error': {'code': c, 'message': msg}, 'id': req.get('id')}
        if m == 'getblockcount':
            return ok(w.height())
        if m == 'getblockhash':
            ch_h = p[0]
            if not isinstance(ch_h, int) or not 0 <= ch_h <= w.height():
                return err(-8, 'Block height out of range')
            return ok(w.tip.ancestor(ch_h).hash[::-1].hex())
        if m == 'getrawmempool':
            return ok([h[::-1].hex() for h in w.mempool])
        if m == 'getrawtransaction':
            try:
                h = bytes.fromhex(p[0])[::-1]
            except (ValueError, TypeError, IndexError):
                return err(-8, 'parameter 1 must be hexadecimal string')
            t = w.mempool.get(h)
            if t is None and self.txindex:
                t = w.txs.get(h)
            if t is None:
                return err(-5, 'No such mempool or blockchain transaction. Use gettransaction for wallet transactions.')
            if len(p) > 1 and p[1]:
                return ok({'hex': t.raw.hex(), 'txid': p[0]})
            return ok(t.raw.hex())
        if m == 'sendrawtransaction':
            self.broadcasts.append(p[0] if p else None)
            return err(-22, 'TX decode failed')
        if m == 'getnetworkinfo':
            return ok({'version': 1010000, 'subversion': '/Sim:1.0.0/', 'relayfee': 0.00001})
        return err(-32601, 'Method not found')

    def _action(self, info):
        act = self.script(info) if self.script else None
        return act or {}

    def post(self, url, data=''):
        payload = json.loads(data)
        batch = isinstance(payload, list)
        method = payload[0]['method'] if batch and payload else (None if batch else payload.get('method'))
        info = {'n': len(self.calls) + 1, 'kind': 'post', 'method': method,
                'batch': len(payload) if batch else None, 'url': url, 'payload': payload}
        self.calls.append((info['n'], method, info['batch'], url))
        act = self._action(info)
        return self._respond(act, lambda: ('application/json',
                                           [self.handle(r) for r in payload] if batch else self.handle(payload)),
                             info)

    def get(self, url):
        info = {'n': len(self.calls) + 1, 'kind': 'get', 'method': 'rest/block', 'batch': None, 'url': url}
        self.calls.append((info['n'], 'rest/block', None, url))
        act = self._action(info)
        return self._respond(act, lambda: self._block(url), info, stream=True)

    def _block(self, url):
        try:
            hh = bytes.fromhex(url.rsplit('/', 1)[1][:-4])[::-1]
        except ValueError:
            hh = None
        b = self.world.by_hash.get(hh)
        if b is None:
            return ('text/plain', 'Block not found', 404, 'Not Found')
        return ('application/octet-stream', b.raw)

    def _respond(self, act, answer, info, stream=False):
        latency = act.get('latency')
        mutate = act.get('mutate')
        fault = act.get('fault')
        holder = {}

        async def pre():
            if latency:
                await asyncio.sleep(latency)
            if mutate:
                mutate()
            if fault in FAULT_EXC:
                raise FAULT_EXC[fault]()
            # the answer is computed when the daemon "processes" the request, i.e. after latency/mutation
            holder['ans'] = answer()

        # Build lazily: Resp needs its fields at __aenter__ time
        sim = self

        class Lazy(Resp):
            def __init__(s):
                pass

            async def __aenter__(s):
                await pre()
                if fault in FAULT_HTTP:
                    st, reason, text = FAULT_HTTP[fault]
                    Resp.__init__(s, 'text/html', text, status=st, reason=reason)
                    return s
                ans = holder['ans']
                if fault == 'warmup':
                    if info['batch'] is not None:
                        body = list(ans[1])
                        if body:
                            k = act.get('warm_index', 0) % len(body)
                            body[k] = {'result': None, 'error': {'code': -28, 'message': 'Loading block index...'},
                                       'id': body[k]['id']}
                        ans = (ans[0], body)
                    else:
                        ans = (ans[0], {'result': None, 'error': {'code': -28, 'message': 'Verifying blocks...'},
                                        'id': ans[1].get('id') if isinstance(ans[1], dict) else None})
                if stream and ans[0] == 'application/octet-stream':
                    raw = ans[1]
                    chunks = [raw[i:i + sim.chunk] for i in range(0, len(raw), sim.chunk)] or [b'']
                    sf = None
                    if isinstance(fault, str) and fault.startswith('truncate'):
                        j = int(fault.split(':')[1]) if ':' in fault else 1
                        sf = (min(j, len(chunks)), aiohttp.ClientPayloadError('sim: response payload is not completed'))
                    Resp.__init__(s, ans[0], None, chunks=chunks, stream_fault=sf)
                elif len(ans) == 4:
                    Resp.__init__(s, ans[0], ans[1], status=ans[2], reason=ans[3])
                else:
                    Resp.__init__(s, ans[0], ans[1])
                return s
        return Lazy()

    async def close(self):
        self.closed = True
