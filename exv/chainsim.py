'''Simulated world: transactions, blocks, branches, daemon mempool.  Pure Python, no electrumx
imports.  This is the *input generator*; it keeps the ground truth of everything it creates.'''
import hashlib
import json
import os
import random
import struct

GENESIS_ACT = 6          # activation height used by the VerifCoin test coin
ZERO32 = bytes(32)
MINUS1 = 0xffffffff


def sha256(b):
    return hashlib.sha256(b).digest()


def dsha(b):
    return hashlib.sha256(hashlib.sha256(b).digest()).digest()


def varint(n):
    if n < 253:
        return bytes([n])
    if n < 65536:
        return b'\xfd' + struct.pack('<H', n)
    if n < 2 ** 32:
        return b'\xfe' + struct.pack('<I', n)
    return b'\xff' + struct.pack('<Q', n)


def ser_tx(ins, outs, version=1, locktime=0):
    parts = [struct.pack('<i', version), varint(len(ins))]
    for (ph, pi, script, seq) in ins:
        parts += [ph, struct.pack('<I', pi), varint(len(script)), script, struct.pack('<I', seq)]
    parts.append(varint(len(outs)))
    for (v, s) in outs:
        parts += [struct.pack('<q', v), varint(len(s)), s]
    parts.append(struct.pack('<I', locktime))
    return b''.join(parts)


def merkle_root(hs):
    hs = list(hs)
    while len(hs) > 1:
        if len(hs) & 1:
            hs.append(hs[-1])
        hs = [dsha(hs[i] + hs[i + 1]) for i in range(0, len(hs), 2)]
    return hs[0]


def hashx(script):
    return sha256(script)[:11]


def scripthash_hex(script):
    return sha256(script)[::-1].hex()


def unspendable(script, height, activation=GENESIS_ACT):
    '''The activation-height OP_RETURN rule, written from the property statement.'''
    if script[:2] == b'\x00\x6a':
        return True
    if height < activation and script[:1] == b'\x6a':
        return True
    return False


class Tx:
    __slots__ = ('ins', 'outs', 'version', 'locktime', 'raw', 'hash')

    def __init__(self, ins, outs, version=1, locktime=0, raw=None):
        self.ins, self.outs, self.version, self.locktime = list(ins), list(outs), version, locktime
        self.raw = raw if raw is not None else ser_tx(self.ins, self.outs, version, locktime)
        self.hash = dsha(self.raw)

    @property
    def is_coinbase(self):
        return len(self.ins) == 1 and self.ins[0][0] == ZERO32 and self.ins[0][1] == MINUS1

    def prevouts(self):
        '''Non-generation prevouts.'''
        return [(ph, pi) for (ph, pi, _s, _q) in self.ins if not (ph == ZERO32 and pi == MINUS1)]


def parse_tx(raw):
    '''Independent parser (used to load pre-ground corpus transactions).'''
    pos = [0]

    def take(n):
        b = raw[pos[0]:pos[0] + n]
        assert len(b) == n
        pos[0] += n
        return b

    def vi():
        n = take(1)[0]
        if n < 253:
            return n
        if n == 253:
            return struct.unpack('<H', take(2))[0]
        if n == 254:
            return struct.unpack('<I', take(4))[0]
        return struct.unpack('<Q', take(8))[0]
    version, = struct.unpack('<i', take(4))
    ins = []
    for _ in range(vi()):
        ph = take(32)
        pi, = struct.unpack('<I', take(4))
        sc = take(vi())
        seq, = struct.unpack('<I', take(4))
        ins.append((ph, pi, sc, seq))
    outs = []
    for _ in range(vi()):
        v, = struct.unpack('<q', take(8))
        outs.append((v, take(vi())))
    lt, = struct.unpack('<I', take(4))
    assert pos[0] == len(raw)
    return Tx(ins, outs, version, lt, raw=bytes(raw))


class Block:
    __slots__ = ('prev', 'height', 'txs', 'header', 'hash', 'raw', 'size')

    def __init__(self, prev, height, txs, salt=0):
        self.prev, self.height, self.txs = prev, height, list(txs)
        self.header = (struct.pack('<i', 1) + (prev.hash if prev else ZERO32)
                       + merkle_root([t.hash for t in self.txs])
                       + struct.pack('<III', 1600000000 + height * 600 + (salt % 500), 0x207fffff,
                                     salt & 0xffffffff))
        self.hash = dsha(self.header)
        self.raw = self.header + varint(len(self.txs)) + b''.join(t.raw for t in self.txs)
        self.size = len(self.raw)

    def chain(self):
        out = []
        b = self
        while b is not None:
            out.append(b)
            b = b.prev
        out.reverse()
        return out

    def ancestor(self, height):
        b = self
        while b.height > height:
            b = b.prev
        return b


def common_ancestor(a, b):
    while a.height > b.height:
        a = a.prev
    while b.height > a.height:
        b = b.prev
    while a is not b:
        a, b = a.prev, b.prev
    return a


def p2pkh(i):
    return b'\x76\xa9\x14' + bytes([i & 0xff]) * 20 + b'\x88\xac'


# Scripts: few, so that many outputs share a script hash.  Includes the shapes the OP_RETURN rule
# distinguishes on both sides of activation.
SPENDABLE_SCRIPTS = [p2pkh(i) for i in range(6)] + [b'\x51', b'', b'\x00', b'\x00\x51', b'\xa9\x14' + b'\x07' * 20 + b'\x87']
OPRET_SCRIPTS = [b'\x6a\x02hi', b'\x6a', b'\x00\x6a\x02hi', b'\x00\x6a']
ALL_SCRIPTS = SPENDABLE_SCRIPTS + OPRET_SCRIPTS


def load_collision_corpus():
    path = os.path.join(os.path.dirname(os.path.dirname(os.path.abspath(__file__))), 'corpus', 'collisions.json')
    try:
        with open(path) as f:
            data = json.load(f)
    except FileNotFoundError:
        return []
    return [[bytes.fromhex(x) for x in fam] for fam in data['families']]


class World:
    '''All blocks ever created (every branch), the daemon's active tip and its mempool.'''

    def __init__(self, seed=0, scripts=None, activation=GENESIS_ACT):
        self.rng = random.Random(seed)
        self.activation = activation
        self.scripts = list(scripts or ALL_SCRIPTS)
        self.hot = self.scripts[:4]
        self.tip = None
        self.by_hash = {}
        self.txs = {}             # every tx ever created: hash -> Tx
        self.mempool = {}         # hash -> Tx, insertion ordered
        self.version = 0
        self.salt = 0
        self._utxo_cache = {}     # block hash -> utxo dict
        self.features = set()     # shape features actually generated (for evidence floors)
        self.genesis = None
        self.pending_cb = []      # pre-ground colliding coinbase txs still to be spliced in
        self.reserved_cb = []     # colliding coinbases held back for a deliberate later use
        self.protected = set()    # tx hashes whose outputs random spending leaves alone (explicit prefer= still spends them)
        self.coll_hashes = set()  # hashes of all colliding txs used
        self.coll_prob = 0.5
        self.readd_on_reorg = False   # daemon puts txs of disconnected blocks back into its mempool (bitcoind behaviour)

    def use_collisions(self, nfam=2, rng=None, kind='same', reserve=False):
        '''Schedule nfam families of colliding coinbases to be used as coinbases of coming blocks.
        kind 'same': members pay identical outputs; 'diff': members pay different scripts and values at the
        same output index (confusing two members is then visible in script hash and value).'''
        rng = rng or self.rng
        fams = load_collision_corpus()
        if kind != 'any':
            fams = [f for f in fams if (len({parse_tx(r).outs and tuple(parse_tx(r).outs) for r in f}) > 1) == (kind == 'diff')]
        if not fams:
            return
        for fam in rng.sample(fams, min(nfam, len(fams))):
            txs = [parse_tx(raw) for raw in fam]
            txs = [t for t in txs if t.hash not in self.txs]
            rng.shuffle(txs)
            if reserve and len(txs) > 1:
                # one member goes on the chain soon; the others are kept for a later, deliberate use
                self.reserved_cb.extend(txs[1:])
                txs = txs[:1]
                self.protected.add(txs[0].hash)
            self.pending_cb.extend(txs)
        rng.shuffle(self.pending_cb)

    # -- chain state
    def utxos(self, tip):
        '''outpoint -> (script, value, height) for the chain ending in tip.'''
        if tip is None:
            return {}
        u = self._utxo_cache.get(tip.hash)
        if u is not None:
            return u
        # find nearest cached ancestor
        path = []
        b = tip
        while b is not None and b.hash not in self._utxo_cache:
            path.append(b)
            b = b.prev
        u = dict(self._utxo_cache[b.hash]) if b is not None else {}
        for blk in reversed(path):
            self.apply_block(u, blk)
        self._remember(tip.hash, u)
        return u

    def _remember(self, h, u):
        self._utxo_cache[h] = u
        if len(self._utxo_cache) > 48:
            for k in list(self._utxo_cache)[:16]:
                if k != h:
                    del self._utxo_cache[k]

    def apply_block(self, u, blk):
        for t in blk.txs:
            self.apply_tx(u, t, blk.height)

    def apply_tx(self, u, t, height):
        for (ph, pi) in t.prevouts():
            del u[(ph, pi)]
        for i, (v, s) in enumerate(t.outs):
            if not unspendable(s, height, self.activation):
                u[(t.hash, i)] = (s, v, height)

    def height(self):
        return self.tip.height

    def active(self):
        return self.tip.chain()

    def bump(self):
        self.version += 1

    # -- construction
    def coinbase(self, height, outs=None):
        self.salt += 1
        rng = self.rng
        if outs is None:
            outs = [(50_0000_0000 + rng.randrange(1000), rng.choice(self.scripts)),
                    (0, rng.choice(self.scripts))]
        script = struct.pack('<BIQ', 4, height, self.salt)
        return Tx([(ZERO32, MINUS1, script, MINUS1)], outs)

    def add_block(self, prev, txs):
        self.salt += 1
        h = prev.height + 1 if prev else 0
        b = Block(prev, h, txs, self.salt)
        self.by_hash[b.hash] = b
        for t in txs:
            self.txs[t.hash] = t
        return b

    def random_tx(self, u, height, rng=None, *, max_in=3, max_out=4, prefer=None, scripts=None,
                  n_in=None, n_out=None, mark=True):
        '''Build a valid tx spending from utxo dict u (mutated).  Returns None if nothing to spend.'''
        rng = rng or self.rng
        if not u:
            return None
        k = n_in if n_in is not None else rng.randrange(1, max_in + 1)
        chosen = []
        if prefer:
            pref = [o for o in prefer if o in u]
            rng.shuffle(pref)
            chosen = pref[:k]
        if len(chosen) < k:
            taken = set(chosen)
            pool = [o for o in u if o not in taken and (not self.protected or o[0] not in self.protected)]
            chosen += rng.sample(pool, min(len(pool), k - len(chosen)))
        if not chosen:
            return None
        total = 0
        ins = []
        for o in chosen:
            s, v, h = u.pop(o)
            total += v
            ins.append((o[0], o[1], bytes(rng.randrange(0, 4)), rng.choice((0, MINUS1, MINUS1 - 1))))
        scripts = scripts or self.scripts
        n = n_out if n_out is not None else rng.randrange(1, max_out + 1)
        fee = rng.randrange(0, min(total, 1000) + 1) if total else 0
        remaining = total - fee
        outs = []
        for i in range(n):
            if i == n - 1:
                v = remaining
            else:
                v = rng.choice((0, remaining // 2, rng.randrange(0, remaining + 1) if remaining else 0))
            remaining -= v
            sc = rng.choice(self.hot) if rng.random() < 0.5 else rng.choice(scripts)
            outs.append((v, sc))
        self.salt += 1
        t = Tx(ins, outs, version=rng.choice((1, 2, -1, 2 ** 31 - 1)), locktime=self.salt)
        if mark:
            self.apply_outputs(u, t, height)
        return t

    def apply_outputs(self, u, t, height):
        for i, (v, s) in enumerate(t.outs):
            if not unspendable(s, height, self.activation):
                u[(t.hash, i)] = (s, v, height)

    def make_block(self, prev, *, ntx=None, extra=(), chain_len=0, fan=None, coinbase=None, rng=None):
        '''A valid block on prev: coinbase + extra (already valid, in order) + random txs.

        chain_len: additionally a same-block spend chain of that length.
        fan: 'in' / 'out' adds a fan-in / fan-out tx around a hot script.'''
        rng = rng or self.rng
        h = prev.height + 1 if prev else 0
        u = dict(self.utxos(prev))
        if coinbase is None and self.pending_cb and rng.random() < self.coll_prob:
            coinbase = self.pending_cb.pop()
            self.coll_hashes.add(coinbase.hash)
            self.features.add('collision_coinbase')
        cb = coinbase or self.coinbase(h)
        txs = [cb]
        self.apply_tx(u, cb, h)
        for t in extra:
            self.apply_tx(u, t, h)
            txs.append(t)
        if ntx is None:
            ntx = rng.choice((0, 0, 1, 2, 3, 5))
        for _ in range(ntx):
            prefer = None
            if self.coll_hashes and rng.random() < 0.35:
                prefer = [o for o in u if o[0] in self.coll_hashes and o[0] not in self.protected]
            t = self.random_tx(u, h, rng, prefer=prefer)
            if t is None:
                break
            txs.append(t)
        if chain_len and u:
            last = None
            for i in range(chain_len):
                t = self.random_tx(u, h, rng, n_in=1, prefer=last, max_out=2)
                if t is None:
                    break
                txs.append(t)
                last = [(t.hash, j) for j in range(len(t.outs)) if (t.hash, j) in u]
                if not last:
                    break
            if i >= 2:
                self.features.add('same_block_chain>=3')
        if fan == 'out' and u:
            t = self.random_tx(u, h, rng, n_in=1, n_out=rng.choice((5, 12, 253)), scripts=[self.hot[0]])
            if t:
                txs.append(t)
                self.features.add('fan_out')
        if fan == 'in':
            mine = [o for o, (s, v, hh) in u.items() if s == self.hot[0]]
            if len(mine) >= 2:
                t = self.random_tx(u, h, rng, n_in=min(len(mine), rng.choice((2, 5, 40))), prefer=mine, n_out=1)
                if t:
                    txs.append(t)
                    self.features.add('fan_in')
        b = self.add_block(prev, txs)
        self._remember(b.hash, u)
        for t in txs:
            for (v, s) in t.outs:
                if s[:1] == b'\x6a':
                    self.features.add('opret_post' if h >= self.activation else 'opret_pre')
                if s[:2] == b'\x00\x6a':
                    self.features.add('opfalse_post' if h >= self.activation else 'opfalse_pre')
                if v == 0:
                    self.features.add('zero_value')
        return b

    def fan_out_tx(self, u, height, n, script):
        '''One tx spending the most valuable output of u into n outputs to script.'''
        o = max(u, key=lambda k: u[k][1])
        sc, v, _h = u[o]
        per = max(1, v // (n + 1))
        self.salt += 1
        return Tx([(o[0], o[1], b'', MINUS1)], [(per, script)] * n, locktime=self.salt)

    def fan_in_tx(self, outpoints, u, script):
        total = sum(u[o][1] for o in outpoints)
        self.salt += 1
        return Tx([(o[0], o[1], b'', MINUS1) for o in outpoints], [(total, script)], locktime=self.salt)

    # -- daemon operations (each bumps the world version)
    def mine(self, n=1, *, confirm='all', **kw):
        '''Extend the active chain by n blocks.  confirm: 'all' | 'none' | iterable of tx hashes - which
        mempool txs the first new block confirms (parents are pulled in automatically).'''
        for i in range(n):
            extra = []
            if i == 0 and self.mempool and confirm != 'none':
                want = set(self.mempool) if confirm == 'all' else set(confirm)
                extra = self._topo([h for h in self.mempool if h in want or self._needed_parent(h, want)])
            self.tip = self.make_block(self.tip, extra=extra, **kw)
            if self.genesis is None:
                self.genesis = self.tip
            self._prune_mempool()
        self.bump()
        return self.tip

    def _needed_parent(self, h, want):
        # is h an ancestor (within mempool) of something in want?
        stack = [w for w in want if w in self.mempool]
        seen = set()
        while stack:
            x = stack.pop()
            if x in seen:
                continue
            seen.add(x)
            for (ph, pi) in self.mempool[x].prevouts():
                if ph == h:
                    return True
                if ph in self.mempool:
                    stack.append(ph)
        return False

    def _topo(self, hashes):
        hs = set(hashes)
        out, done = [], set()

        def visit(h):
            if h in done:
                return
            done.add(h)
            for (ph, pi) in self.mempool[h].prevouts():
                if ph in hs:
                    visit(ph)
            out.append(self.mempool[h])
        for h in hashes:
            visit(h)
        return out

    def _prune_mempool(self):
        '''Keep only mempool txs valid on the active chain (what bitcoind does after a block/reorg).'''
        u = dict(self.utxos(self.tip))
        confirmed = set()
        keep = {}
        changed = True
        pending = dict(self.mempool)
        # iterate to a fixed point in dependency order
        avail = dict(u)
        while changed and pending:
            changed = False
            for h, t in list(pending.items()):
                pv = t.prevouts()
                if all(o in avail for o in pv):
                    for o in pv:
                        del avail[o]
                    for i, (v, s) in enumerate(t.outs):
                        avail[(h, i)] = (s, v, -1)
                    keep[h] = t
                    del pending[h]
                    changed = True
        # preserve original order
        self.mempool = {h: t for h, t in self.mempool.items() if h in keep}
        del confirmed

    def fork(self, depth, newlen, *, remine=0.5, rng=None, **kw):
        '''Create (not switch to) a branch forking depth blocks below the active tip with newlen blocks.
        Some transactions of the abandoned blocks are re-mined (possibly at other heights) when still valid.'''
        rng = rng or self.rng
        base = self.tip.ancestor(self.tip.height - depth)
        abandoned = [t for b in self.tip.chain()[base.height + 1:] for t in b.txs if not t.is_coinbase]
        tip = base
        for i in range(newlen):
            u = self.utxos(tip)
            avail = set(u)
            extra = []
            rest = []
            for t in abandoned:
                if rng.random() < remine and all(o in avail for o in t.prevouts()):
                    for o in t.prevouts():
                        avail.discard(o)
                    for j in range(len(t.outs)):
                        if not unspendable(t.outs[j][1], tip.height + 1, self.activation):
                            avail.add((t.hash, j))
                    extra.append(t)
                else:
                    rest.append(t)
            abandoned = rest
            if extra:
                self.features.add('remined_tx')
            tip = self.make_block(tip, extra=extra, rng=rng, **kw)
        return tip

    def switch_to(self, tip):
        if self.readd_on_reorg and self.tip is not None:
            # like bitcoind: transactions of disconnected blocks go back to the mempool if still valid on the new branch
            ca = common_ancestor(self.tip, tip)
            back = [t for b in self.tip.chain()[ca.height + 1:] for t in b.txs if not t.is_coinbase]
            if back:
                confirmed = {t.hash for b in tip.chain()[ca.height + 1:] for t in b.txs}
                merged = {t.hash: t for t in back if t.hash not in confirmed}
                merged.update(self.mempool)
                self.mempool = merged
                self.features.add('txs_returned_to_mempool_by_reorg')
        self.tip = tip
        self._prune_mempool()
        self.bump()

    def mempool_utxos(self):
        '''Confirmed-at-tip + unconfirmed outputs available for a new mempool tx:
        outpoint -> (script, value, height|-1).'''
        avail = dict(self.utxos(self.tip))
        for h, t in self.mempool.items():
            for o in t.prevouts():
                avail.pop(o, None)
            for i, (v, s) in enumerate(t.outs):
                if not unspendable(s, self.tip.height + 1, self.activation):
                    avail[(h, i)] = (s, v, -1)
        return avail

    def mempool_add(self, *, parent=None, n_in=None, n_out=None, rng=None, generation_like=False, prefer=None):
        '''Add a valid tx to the daemon mempool.  parent: 'confirmed' | 'unconfirmed' | None (any).'''
        rng = rng or self.rng
        avail = self.mempool_utxos()
        if parent == 'confirmed':
            pool = {o: x for o, x in avail.items() if x[2] >= 0}
        elif parent == 'unconfirmed':
            pool = {o: x for o, x in avail.items() if x[2] < 0}
        else:
            pool = avail
        if not pool:
            return None
        t = self.random_tx(pool, self.tip.height + 1, rng, n_in=n_in, n_out=n_out, mark=False, prefer=prefer)
        if t is None:
            return None
        if generation_like:
            outs = list(t.outs)
            if rng.random() < 0.5:
                # the generation-like input "brings" value: outputs exceed the ordinary inputs (the documented fee is then 0)
                outs[0] = (outs[0][0] + rng.randrange(1, 5000), outs[0][1])
                self.features.add('genlike_outputs_exceed_inputs')
            t = Tx(t.ins + [(ZERO32, MINUS1, b'gen', 0)], outs, t.version, t.locktime)
        self.mempool[t.hash] = t
        self.txs[t.hash] = t
        self.bump()
        return t

    def mempool_chain(self, n, rng=None):
        '''A strict chain of n unconfirmed txs (tx i spends output 0 of tx i-1); every link spendable.'''
        rng = rng or self.rng
        avail = {o: x for o, x in self.mempool_utxos().items() if x[2] >= 0 and x[1] > 10 * n
                 and (not self.protected or o[0] not in self.protected)}
        if not avail:
            return []
        o = rng.choice(sorted(avail))
        value = avail[o][1]
        spendable = [sc for sc in self.scripts if not unspendable(sc, 10 ** 9, self.activation) and sc[:1] != b'\x6a' and sc[:2] != b'\x00\x6a']
        prev = o
        out = []
        for _ in range(n):
            self.salt += 1
            value -= rng.randrange(0, 5)
            outs = [(value, rng.choice(self.hot) if rng.random() < 0.5 else rng.choice(spendable))]
            if rng.random() < 0.2:
                outs.append((0, rng.choice(spendable)))
            t = Tx([(prev[0], prev[1], b'', MINUS1)], outs, locktime=self.salt)
            self.mempool[t.hash] = t
            self.txs[t.hash] = t
            prev = (t.hash, 0)
            out.append(t)
        self.bump()
        return out

    def mempool_evict(self, h):
        '''Remove a tx and its descendants.'''
        gone = {h}
        changed = True
        while changed:
            changed = False
            for x, t in self.mempool.items():
                if x not in gone and any(ph in gone for ph, pi in t.prevouts()):
                    gone.add(x)
                    changed = True
        for x in gone:
            self.mempool.pop(x, None)
        self.bump()
        return gone
