'''Bring-up of the *real* electrumx server against the simulated world, in-memory clients, index
extraction and comparison with the reference model.  One scenario per forked child.'''
import asyncio
import json
import logging
import os
import shutil
import struct

from exv import vloop
from exv.chainsim import GENESIS_ACT, hashx
from exv.core import scratch_dir
from exv.simdaemon import SimSession


# ---------------------------------------------------------------------------------------
# logging capture

class MemLog(logging.Handler):
    def __init__(self):
        super().__init__(level=logging.WARNING)
        self.records = []

    def emit(self, record):
        try:
            msg = record.getMessage()
        except Exception:    # noqa
            msg = str(record.msg)
        exc = None
        if record.exc_info and record.exc_info[0] is not None:
            import traceback
            exc = ''.join(traceback.format_exception(*record.exc_info))[-2500:]
        self.records.append((record.levelname, record.name, msg[:500], exc))


def install_log_capture():
    logging.disable(logging.NOTSET)
    root = logging.getLogger()
    for h in list(root.handlers):
        root.removeHandler(h)
    h = MemLog()
    root.addHandler(h)
    root.setLevel(logging.WARNING)
    return h


# ---------------------------------------------------------------------------------------
# environment

def install_coin(prefetch=100, activation=GENESIS_ACT):
    import electrumx.lib.coins as coins
    if not hasattr(coins, 'VerifCoin'):
        class VerifCoin(coins.BitcoinSVRegtest):
            NAME = 'VerifCoin'
            GENESIS_ACTIVATION = activation
            PREFETCH = prefetch
            CHAIN_SIZE = 20_000
            CHAIN_SIZE_HEIGHT = 5

            @classmethod
            def prefetch_limit(cls, height):
                return cls.PREFETCH
        VerifCoin.__module__ = coins.__name__
        coins.VerifCoin = VerifCoin
    coins.VerifCoin.PREFETCH = prefetch
    coins.VerifCoin.GENESIS_ACTIVATION = activation
    return coins.VerifCoin


db_tweak = None     # optional callable(db) applied to every DB instance right after construction


def small_files(db):
    '''Shrink the logical metadata files so that writes and reads cross file boundaries (16 MB in production).'''
    db.headers_file.file_size = 80 * 5
    db.tx_counts_file.file_size = 8 * 7
    db.hashes_file.file_size = 32 * 9 + 16      # deliberately not a multiple of the record size


def _install_db_init_hook():
    from electrumx.server.db import DB
    if hasattr(DB, '_exv_init'):
        return
    DB._exv_init = DB.__init__

    def __init__(self, env):
        DB._exv_init(self, env)
        if db_tweak is not None:
            db_tweak(self)
    DB.__init__ = __init__


def make_env(dbdir, *, genesis_hash=None, prefetch=100, **extra):
    _install_db_init_hook()
    coin = install_coin(prefetch)
    if genesis_hash is not None:
        coin.GENESIS_HASH = genesis_hash[::-1].hex()
    keep = {k: v for k, v in os.environ.items() if k.startswith(('EXV_', 'PYTHON', 'ELECTRUMX_VERIF', 'PATH', 'HOME'))}
    os.environ.clear()
    os.environ.update(keep)
    os.environ.update({
        'DB_DIRECTORY': dbdir, 'DAEMON_URL': 'http://u:p@localhost:8332/', 'COIN': 'VerifCoin', 'NET': 'regtest',
        'SERVICES': '', 'PEER_DISCOVERY': 'off', 'ALLOW_ROOT': '1', 'COST_SOFT_LIMIT': '0', 'COST_HARD_LIMIT': '0',
        'REORG_LIMIT': '5', 'LOG_SESSIONS': '0'})
    os.environ.update({k: str(v) for k, v in extra.items()})
    from electrumx.server.env import Env
    return Env()


# ---------------------------------------------------------------------------------------
# in-memory client transport

class SimTransport:
    '''Client boundary: everything the server writes to a client is logged here.'''

    def __init__(self, on_write=None, host='8.8.8.8'):
        from aiorpcx.session import SessionKind
        self.kind = SessionKind.SERVER
        self.out = []        # decoded messages in arrival order
        self.inq = asyncio.Queue()
        self.closed = False
        self.on_write = on_write
        self.host = host
        self.raw_out = []

    async def write(self, message):
        try:
            msg = json.loads(message)
        except ValueError:
            msg = {'_undecodable': bytes(message)[:200]}
        self.raw_out.append(message)
        self.out.append(msg)
        if self.on_write:
            self.on_write(self, msg)

    async def close(self, force_after=0):
        if not self.closed:
            self.closed = True
            await self.inq.put(None)

    async def abort(self):
        self.closed = True

    def is_closing(self):
        return self.closed

    def proxy(self):
        return None

    def remote_address(self):
        from aiorpcx import NetAddress
        return NetAddress(self.host, 51234)

    async def recv(self):
        m = await self.inq.get()
        if m is None:
            from aiorpcx.rawsocket import ConnectionLostError
            raise ConnectionLostError()
        return m

    async def send(self, id_, method, params):
        await self.inq.put(json.dumps({'jsonrpc': '2.0', 'id': id_, 'method': method, 'params': params}).encode())

    async def send_raw(self, raw):
        await self.inq.put(raw if isinstance(raw, bytes) else raw.encode())


class Client:
    '''A real ElectrumX (or LocalRPC) session served over a SimTransport.'''

    def __init__(self, server, rpc=False, on_write=None, host='8.8.8.8'):
        sm = server.cap['SessionManager']
        self.tr = SimTransport(on_write, host)
        if rpc:
            from electrumx.server.session import LocalRPC
            cls = LocalRPC
            kind = 'RPC'
        else:
            cls = server.env.coin.SESSIONCLS
            kind = 'TCP'
        self.session = cls(sm, server.cap['DB'], server.cap['MemPool'], sm.peer_mgr, kind, self.tr)
        self.task = asyncio.ensure_future(self.session.process_messages(self.tr.recv))
        self.task.add_done_callback(lambda f: f.cancelled() or f.exception())
        self.next_id = 0
        self.server = server

    async def call(self, method, params=(), vtimeout=120.0):
        '''Send a request and wait (virtual time) for its reply.  Returns the reply message.'''
        self.next_id += 1
        id_ = self.next_id
        await self.tr.send(id_, method, list(params) if not isinstance(params, dict) else params)
        return await self.wait_reply(id_, vtimeout)

    async def wait_reply(self, id_, vtimeout=120.0):
        loop = asyncio.get_running_loop()
        end = loop.time() + vtimeout
        seen = 0
        while True:
            out = self.tr.out
            for m in out[seen:]:
                if isinstance(m, dict) and m.get('id') == id_ and 'method' not in m:
                    return m
            seen = len(out)
            if loop.time() > end or self.tr.closed:
                return None
            await asyncio.sleep(0.01)

    async def send(self, method, params=()):
        self.next_id += 1
        await self.tr.send(self.next_id, method, list(params))
        return self.next_id

    def notifications(self, method=None):
        return [m for m in self.tr.out if isinstance(m, dict) and 'method' in m and (method is None or m['method'] == method)]

    async def close(self):
        await self.tr.close()
        try:
            await asyncio.wait_for(asyncio.shield(self.task), 5)
        except Exception:    # noqa
            pass


# ---------------------------------------------------------------------------------------
# server bring-up

class Server:
    def __init__(self, world, dbdir, *, flushvec=None, prefetch=100, txindex=False, env_extra=None,
                 genesis=None, sim=None):
        self.world = world
        self.dbdir = dbdir
        self.env = make_env(dbdir, genesis_hash=(genesis or world.genesis).hash, prefetch=prefetch, **(env_extra or {}))
        self.sim = sim or SimSession(world, txindex=txindex)
        self.flushvec = flushvec
        self.cap = {'sim': self.sim}
        self.events = []          # (vtime, kind, data) harness-level event log
        self.advances = 0
        self.adv_log = {}        # height -> daemon height cached when the block now at that height was advanced
        self.task_exc = None

    def log(self, kind, **data):
        try:
            t = asyncio.get_running_loop().time()
        except RuntimeError:
            t = -1
        self.events.append((round(t, 3), kind, data))

    def start(self, real_run=False):
        import electrumx.server.controller as ctl
        import electrumx.server.block_processor as bpmod
        from electrumx.server.daemon import Daemon
        cap = self.cap
        sim = self.sim
        srv = self
        vloop.install_failpoints()
        # a previous server in this process must not leak block bookkeeping
        bpmod.OnDiskBlock.blocks = {}
        bpmod.OnDiskBlock.tasks = {}
        bpmod.OnDiskBlock.log_block = False

        async def aenter(self_):
            self_.session = sim
            cap['daemon'] = self_
            return self_
        if not hasattr(Daemon, '_exv_orig_aenter'):
            Daemon._exv_orig_aenter = Daemon.__aenter__
        Daemon.__aenter__ = aenter
        if not getattr(ctl, '_exv', False):
            ctl._exv = True
            ctl._orig = {n: getattr(ctl, n) for n in ('DB', 'MemPool', 'SessionManager', 'Notifications')}
            ctl._origbp = bpmod.BlockProcessor
        def note_exc(where, e):
            import traceback
            if srv.task_exc is None:
                srv.task_exc = f'[{where}] ' + ''.join(traceback.format_exception(type(e), e, e.__traceback__))[-3000:]

        def guard(method_name, where):
            # record any exception (other than cancellation) escaping a long-running server task
            def deco(cls):
                orig = getattr(cls, method_name)

                async def wrapper(self_, *a, **k):
                    try:
                        return await orig(self_, *a, **k)
                    except asyncio.CancelledError:
                        raise
                    except BaseException as e:    # noqa
                        note_exc(where, e)
                        raise
                wrapper.__name__ = method_name
                wrapper.__qualname__ = f'{cls.__name__}.{method_name}'
                setattr(cls, method_name, wrapper)
                return cls
            return deco
        for name, cls in ctl._orig.items():
            def mk(cls, name):
                class Rec(cls):
                    def __init__(self_, *a, **k):
                        super().__init__(*a, **k)
                        cap[name] = self_
                Rec.__name__ = cls.__name__
                Rec.__qualname__ = cls.__qualname__
                if name == 'MemPool':
                    guard('keep_synchronized', 'MemPool.keep_synchronized')(Rec)
                if name == 'SessionManager':
                    guard('serve', 'SessionManager.serve')(Rec)
                return Rec
            setattr(ctl, name, mk(cls, name))

        class RecBP(ctl._origbp):
            def __init__(self_, *a, **k):
                super().__init__(*a, **k)
                cap['bp'] = self_

            def advance_block(self_, block):
                before = self_.state.height
                cached = self_.daemon.cached_height()
                r = super().advance_block(block)
                if self_.state.height != before:
                    # the daemon height the block processor knew when it decided whether to keep undo information for this block
                    srv.adv_log[self_.state.height] = cached
                    srv.advances += 1
                    srv.events.append((-1, 'advanced', {'height': self_.state.height}))
                    fv = srv.flushvec
                    if fv and self_.reorg_count is None:
                        f = fv[(srv.advances - 1) % len(fv)]
                        if f is not None:
                            self_.force_flush_arg = f
                return r

            def backup_block(self_, block):
                r = super().backup_block(block)
                srv.events.append((-1, 'backed_up', {'height': self_.state.height}))
                return r
        RecBP.__name__ = 'BlockProcessor'
        guard('fetch_and_process_blocks', 'BlockProcessor.fetch_and_process_blocks')(RecBP)
        bpmod.BlockProcessor = RecBP
        self.controller = ctl.Controller(self.env)
        if real_run:
            # the repository's own run(): signal handlers, shutdown event, cancel, await
            self.shutdown = None
            self.task = asyncio.ensure_future(self.controller.run())
        else:
            self.shutdown = asyncio.Event()
            self.task = asyncio.ensure_future(self.controller.serve(self.shutdown))
        cap['task'] = self.task
        return self

    def start_real_run(self):
        return self.start(real_run=True)

    # -- convenient accessors
    @property
    def db(self):
        return self.cap.get('DB')

    @property
    def bp(self):
        return self.cap.get('bp')

    @property
    def mempool(self):
        return self.cap.get('MemPool')

    @property
    def sm(self):
        return self.cap.get('SessionManager')

    @property
    def notifications(self):
        return self.cap.get('Notifications')

    def check_task(self):
        '''If the serve task (or one of the long-running tasks inside it) died, remember why.'''
        if self.task_exc is not None:
            return self.task_exc
        if self.task.done() and self.task_exc is None and not self.task.cancelled():
            e = self.task.exception()
            if e is not None:
                import traceback
                self.task_exc = ''.join(traceback.format_exception(type(e), e, e.__traceback__))[-3000:]
        return self.task_exc

    async def wait_until(self, cond, vtimeout=300.0, step=0.05):
        loop = asyncio.get_running_loop()
        end = loop.time() + vtimeout
        while True:
            if cond():
                return True
            if self.task.done() or self.task_exc is not None:
                self.check_task()
                return False
            if loop.time() > end:
                return False
            await asyncio.sleep(step)

    def caught_up(self):
        bp, db = self.bp, self.db
        return (bp is not None and bp.caught_up and db is not None and db.state is not None
                and bp.state is not None and bp.state.height == self.world.height()
                and db.state.height == self.world.height() and bp.state.tip == self.world.tip.hash
                and db.state.tip == self.world.tip.hash and bp.reorg_count is None)

    async def wait_caught_up(self, vtimeout=400.0):
        return await self.wait_until(self.caught_up, vtimeout)

    async def wait_listening(self, vtimeout=400.0):
        return await self.wait_until(lambda: self.sm is not None and self.sm.server_listening.is_set(), vtimeout)

    def client(self, **kw):
        return Client(self, **kw)

    async def stop(self):
        '''The real shutdown sequence: set the event, cancel serve, await it, drain the executor.'''
        self.shutdown.set()
        self.task.cancel()
        try:
            await self.task
        except asyncio.CancelledError:
            pass
        except Exception as e:    # noqa
            import traceback
            self.task_exc = ''.join(traceback.format_exception(type(e), e, e.__traceback__))[-3000:]
        loop = asyncio.get_running_loop()
        gex = getattr(loop, 'gex', None)
        if gex is not None:
            gex.drain()
        await asyncio.sleep(0)

    def close_db(self):
        close_db(self.db)


def close_db(db):
    if db is None:
        return
    if db.utxo_db:
        db.utxo_db.close()
        db.utxo_db = None
    db.history.close_db()


async def open_db(dbdir, env=None, **env_extra):
    '''Open the index in dbdir exactly as a restart does (open_for_sync).'''
    from electrumx.server.db import DB
    if env is None:
        env = make_env(dbdir, **env_extra)
    db = DB(env)
    await db.open_for_sync()
    return db


# ---------------------------------------------------------------------------------------
# observables

LIMITS = (None, 0, 1, 2, 1000)


class ReadStuck(Exception):
    '''A read of a quiescent index kept retrying ("tx hash not found (reorg?)") for 120 virtual seconds.'''


async def guarded(coro, what):
    try:
        return await asyncio.wait_for(coro, 120)
    except asyncio.TimeoutError:
        raise ReadStuck(what) from None


async def extract(db, hashxs, outpoints=(), raw=True, limits=True):
    '''Read every observable of the index through its public read path.'''
    st = db.state
    h = st.height
    out = {'state': dict(height=st.height, tip=st.tip, tx_count=st.tx_count, utxo_count=st.utxo_count,
                         chain_size=st.chain_size)}
    if h >= 0:
        hdrs, n = await db.read_headers(0, h + 1)
        out['headers'] = (bytes(hdrs), n)
        out['block_hashes'] = await db.fs_block_hashes(0, h + 1)
        out['tx_hashes'] = [db.fs_tx_hashes_at_blockheight(i) for i in range(h + 1)]
    else:
        out['headers'] = (b'', 0)
        out['block_hashes'] = []
        out['tx_hashes'] = []
    out['txnum'] = [db.fs_tx_hash(n) for n in range(st.tx_count)]
    out['beyond'] = db.fs_tx_hash(st.tx_count)
    out['hist'] = {}
    out['hist_limited'] = {}
    out['utxo'] = {}
    for k in hashxs:
        full = await guarded(db.limited_history(k, limit=None), f'limited_history({k.hex()})')
        out['hist'][k] = full
        if limits:
            n = len(full)
            for lim in set(LIMITS[1:]) | {max(0, n - 1), n, n + 1}:
                out['hist_limited'][(k, lim)] = await guarded(db.limited_history(k, limit=lim), f'limited_history({k.hex()},{lim})')
        out['utxo'][k] = sorted((u.tx_hash, u.tx_pos, u.value, u.height)
                                for u in await guarded(db.all_utxos(k), f'all_utxos({k.hex()})'))
    outpoints = list(outpoints)
    out['lookup'] = dict(zip(outpoints, await db.lookup_utxos(outpoints))) if outpoints else {}
    if raw:
        out['raw'] = raw_scan(db)
    return out


def raw_scan(db):
    '''Raw table scan (catches stale rows that no query happens to hit).'''
    u_rows, h_rows, undo = set(), set(), []
    for k, v in db.utxo_db.iterator(prefix=b'u'):
        hx = k[1:-9]
        pos, = struct.unpack('<I', k[-9:-5])
        num, = struct.unpack('<Q', k[-5:] + bytes(3))
        val, = struct.unpack('<Q', v)
        u_rows.add((hx, pos, num, val))
    for k, v in db.utxo_db.iterator(prefix=b'h'):
        pos, = struct.unpack('<I', k[-9:-5])
        num, = struct.unpack('<Q', k[-5:] + bytes(3))
        h_rows.add((k[1:5], pos, num, v))
    for k, v in db.utxo_db.iterator(prefix=b'U'):
        if len(k) == 5:
            undo.append(struct.unpack('>I', k[1:])[0])
    hist = {}
    rows_per = {}
    for k, v in db.history.db.iterator(prefix=b''):
        if len(k) != 13:
            continue
        hx = k[:-2]
        hist.setdefault(hx, []).extend(struct.unpack('<Q', v[i:i + 5] + bytes(3))[0] for i in range(0, len(v), 5))
        rows_per[hx] = rows_per.get(hx, 0) + 1
    return {'u': u_rows, 'h': h_rows, 'undo': undo, 'hist': hist, 'hist_rows': rows_per}


def compare(ex, orc, hashxs, outpoints=(), max_diffs=6):
    '''Diff extracted observables against the reference model.  Returns a list of (kind, detail).'''
    d = []
    ost = orc.state()
    if ex['state'] != ost:
        d.append(('state', {k: (ex['state'][k], ost[k]) for k in ost if ex['state'][k] != ost[k]}))
        if ex['state']['height'] != ost['height']:
            return d
    if ex['headers'] != (orc.headers(), orc.height + 1):
        d.append(('headers', 'header file differs from chain'))
    if ex['block_hashes'] != orc.block_hashes():
        d.append(('block_hashes', None))
    for h in range(orc.height + 1):
        if ex['tx_hashes'][h] != orc.tx_hashes_at(h):
            d.append(('tx_hashes_at_height', h))
            break
    if ex['txnum'] != orc.txnum:
        bad = next((n for n, (a, b) in enumerate(zip(ex['txnum'], orc.txnum)) if a != b), None)
        d.append(('txnum->(hash,height)', {'first_bad': bad, 'got_len': len(ex['txnum']), 'want_len': len(orc.txnum)}))
    if ex['beyond'][0] is not None:
        d.append(('txnum-beyond-count', 'fs_tx_hash(tx_count) returned a hash'))
    for k in hashxs:
        want = orc.history(k)
        if ex['hist'][k] != want:
            d.append(('history', {'hashX': k, 'got': len(ex['hist'][k]), 'want': len(want),
                                  'dup': len(ex['hist'][k]) != len(set(ex['hist'][k])),
                                  'sorted_equal': sorted(ex['hist'][k]) == sorted(want)}))
        for (kk, lim), got in ex['hist_limited'].items():
            if kk == k and got != orc.history(k, lim):
                d.append(('history-limit', {'hashX': k, 'limit': lim, 'got': len(got), 'want': len(orc.history(k, lim))}))
        wu = orc.utxos_of(k)
        if ex['utxo'][k] != wu:
            d.append(('utxos', {'hashX': k, 'got': len(ex['utxo'][k]), 'want': len(wu),
                                'balance_got': sum(x[2] for x in ex['utxo'][k]), 'balance_want': sum(x[2] for x in wu)}))
        if len(d) >= max_diffs:
            return d
    for o in outpoints:
        if ex['lookup'].get(o) != orc.lookup(o):
            d.append(('lookup_utxos', {'outpoint': o, 'got': ex['lookup'].get(o), 'want': orc.lookup(o)}))
            break
    raw = ex.get('raw')
    if raw is not None:
        want_u = orc.u_rows()
        if raw['u'] != want_u:
            d.append(('raw-u-rows', {'extra': len(raw['u'] - want_u), 'missing': len(want_u - raw['u'])}))
        want_h = {(None, pos, num, hx) for (hx, pos, num, val) in want_u}
        got_h = {(None, pos, num, hx) for (pfx, pos, num, hx) in raw['h']}
        if got_h != want_h:
            d.append(('raw-h-rows', {'extra': len(got_h - want_h), 'missing': len(want_h - got_h)}))
        else:
            # prefix must be the first 4 bytes of the tx hash
            for (pfx, pos, num, hx) in raw['h']:
                if orc.txnum[num][0][:4] != pfx:
                    d.append(('raw-h-prefix', num))
                    break
        # concatenated history rows
        num_of = None
        for k, nums in raw['hist'].items():
            want = orc.hist.get(k, [])
            if len(nums) != len(want):
                d.append(('raw-history-rows', {'hashX': k, 'got': len(nums), 'want': len(want)}))
                break
            got = [orc.txnum[n][0] if n < len(orc.txnum) else None for n in nums]
            if got != [w[0] for w in want]:
                d.append(('raw-history-rows', {'hashX': k, 'order_or_content': True}))
                break
        for k in orc.hist:
            if k not in raw['hist']:
                d.append(('raw-history-rows', {'hashX': k, 'missing': True}))
                break
        del num_of
    return d


# ---------------------------------------------------------------------------------------
# scenario runner (inside a forked child)

def run_scenario(coro_fn, *, seed=0, policy='random', keep_dir=False, **loop_kw):
    '''Create a scratch DB dir, run coro_fn(loop, dbdir) on a fresh VLoop, clean up.
    Returns (result, loop).  Budget/Quiescent propagate to the caller.'''
    install_log_capture()
    dbdir = scratch_dir('exv-db-')
    loop = vloop.VLoop(seed=seed, policy=policy, **loop_kw)
    asyncio.set_event_loop(loop)
    try:
        res = loop.run_until_complete(coro_fn(loop, dbdir))
        return res, loop
    finally:
        try:
            loop.gex.drain()
        except Exception:    # noqa
            pass
        os.chdir('/')
        if not keep_dir:
            shutil.rmtree(dbdir, ignore_errors=True)
