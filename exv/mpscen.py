'''Mempool scenario engine (C08, C09; reused by C07/C10): real server over a real index, daemon
mempool evolution, hand-over recording at the MemPoolAPI boundary, exact comparison with the reference
model at synchronised refreshes, structural invariants at every loop iteration.'''
import asyncio
import random

from exv import harness, vloop
from exv.chainsim import World, hashx, unspendable
from exv.core import digest
from exv.oracle import ChainOracle, MempoolOracle
from exv.scen import grow_chain


class MempoolEngine:
    def __init__(self, case):
        self.case = case
        self.rng = random.Random(case['seed'])
        self.world = World(seed=case['seed'] * 11 + 3)
        self.world.readd_on_reorg = case.get('readd_on_reorg', True)
        self.handovers = []
        self.refresh_start = None       # world version at the getrawmempool of the refresh in progress
        self.refresh_tip = None         # index tip at that moment
        self.refresh_calls = 0          # daemon calls since that getrawmempool
        self.refreshes = 0
        self.counters = {}
        self.violations = []
        self.inconclusive = []
        self.last_sync_sets = None
        self.last_sync_index = 0
        self.inv_checks = 0
        self.placements = {}            # (refresh ordinal, call index) -> callable
        self.event_log = []
        self.srv = None
        self.keys = None

    def bump(self, k, n=1):
        self.counters[k] = self.counters.get(k, 0) + n

    def index_tip(self):
        db = self.srv.db if self.srv else None
        return db.state.tip if db is not None and db.state is not None else None

    def viol(self, key, what, detail=None):
        if not any(v['key'] == key for v in self.violations):
            self.violations.append({'key': key, 'what': what,
                                    'witness': {'case': self.case, 'detail': detail, 'events': self.event_log[-30:]}})

    # -- instrumentation
    def install(self):
        import electrumx.server.controller as ctl
        N = getattr(ctl, '_orig', {}).get('Notifications') or ctl.Notifications
        if not hasattr(N, '_exv_on_mempool'):
            N._exv_on_mempool = N.on_mempool
        orig = N._exv_on_mempool
        eng = self

        async def on_mempool(self_, touched, height):
            eng.handovers.append({'touched': set(touched), 'height': height, 'v_end': eng.world.version,
                                  'v_start': eng.refresh_start, 'tip_start': eng.refresh_tip, 'tip_end': eng.index_tip(), 'db_height': eng.srv.db.state.height if eng.srv and eng.srv.db else None})
            eng.bump('handovers')
            return await orig(self_, touched, height)
        N.on_mempool = on_mempool

    def daemon_script(self, info):
        m = info['method']
        if m == 'getrawmempool':
            self.refresh_start = self.world.version
            self.refresh_tip = self.index_tip()
            self.refresh_calls = 0
            self.refreshes += 1
        else:
            self.refresh_calls += 1
        act = {}
        fn = self.placements.pop((self.refreshes, self.refresh_calls, m), None) or self.placements.pop((self.refreshes, self.refresh_calls), None)
        if fn is not None:
            act['mutate'] = fn
            self.bump('placed_events_fired')
            self.bump(f'placed_at:{m}')
        lat = (self.case.get('latency_by_method') or {}).get(m) or self.case.get('latency')
        if lat:
            act['latency'] = self.rng.choice(lat)
        return act

    # -- invariants at a hook (loop-owned state, evaluated between loop iterations)
    def invariant_hook(self, loop):
        mp = self.srv.mempool if self.srv else None
        if mp is None:
            return
        n = len(mp.txs)
        if n > 60 and loop.iter % 16:
            return
        self.inv_checks += 1
        txs, hashXs = mp.txs, mp.hashXs
        w = self.world
        for tx_hash, tx in txs.items():
            truth = w.txs.get(tx_hash)
            if truth is None:
                self.viol('mempool/unknown-tx', f'mempool holds tx {tx_hash.hex()} the daemon never had')
                continue
            want_out = tuple((hashx(s), v) for v, s in truth.outs)
            want_in = []
            for (ph, pi) in truth.prevouts():
                v, s = w.txs[ph].outs[pi]
                want_in.append((hashx(s), v))
            if tuple(tx.out_pairs) != want_out:
                self.viol('mempool/wrong-output-pairs', f'tx {tx_hash.hex()[:16]} recorded with wrong outputs')
            if tx.in_pairs is None or list(tx.in_pairs) != want_in:
                self.viol('mempool/wrong-input-pairs', f'tx {tx_hash.hex()[:16]} recorded with wrong input script hash or value: '
                          f'{tx.in_pairs} != {want_in}')
            else:
                genlike = len(truth.prevouts()) != len(truth.ins)
                fee = max(0, sum(v for _, v in want_in) - sum(v for _, v in want_out))
                if tx.fee != fee and not genlike:
                    self.viol('mempool/wrong-fee', f'tx {tx_hash.hex()[:16]} fee {tx.fee} != {fee}')
                if tx.fee < 0:
                    # also for generation-like inputs, whose value is unknown: a fee is never negative
                    self.viol('mempool/negative-fee', f'tx {tx_hash.hex()[:16]} recorded with fee {tx.fee}')
            for hx, _v in list(tx.in_pairs or ()) + list(tx.out_pairs):
                if tx_hash not in hashXs.get(hx, ()):
                    self.viol('mempool/index-not-inverse', f'tx {tx_hash.hex()[:16]} touches {hx.hex()} but is not indexed under it')
        for hx, s in hashXs.items():
            if not s:
                self.viol('mempool/index-not-inverse', f'empty set left in by-script-hash index for {hx.hex() if hx else hx}')
            for th in s:
                tx = txs.get(th)
                if tx is None:
                    self.viol('mempool/index-not-inverse', f'index of {hx.hex()} names tx {th.hex()[:16]} which is not in the pool')
                elif not any(h == hx for h, _v in list(tx.in_pairs or ()) + list(tx.out_pairs)):
                    self.viol('mempool/index-not-inverse', f'index of {hx.hex()} names tx {th.hex()[:16]} which does not touch it')

    # -- exact comparison at a synchronised refresh
    def compare_keys(self):
        if self.keys is None:
            self.keys = [hashx(s) for s in self.world.scripts if not unspendable(s, 10 ** 9, self.world.activation)
                         and not s[:1] == b'\x6a'] + [hashx(b'absent')]
        return self.keys

    async def compare_view(self, label):
        w, mp = self.world, self.srv.mempool
        co = ChainOracle(w.active(), w.activation)
        mo = MempoolOracle(co, w.mempool)
        self.bump('synchronised_refreshes_compared')
        if set(mp.txs) != set(w.mempool):
            self.viol('mempool/tx-set-differs', f'{label}: pool has {len(mp.txs)} txs, daemon {len(w.mempool)}; missing '
                      f'{len(set(w.mempool) - set(mp.txs))} extra {len(set(mp.txs) - set(w.mempool))}')
        for hx in self.compare_keys():
            self.bump('scripthash_views_compared')
            bd = await mp.balance_delta(hx)
            if bd != mo.balance_delta(hx):
                self.viol('mempool/balance-delta', f'{label}: balance_delta({hx.hex()})={bd}, expected {mo.balance_delta(hx)}')
            sums = await mp.transaction_summaries(hx)
            got = {(s.hash, bool(s.has_unconfirmed_inputs)) for s in sums}
            want = {(h, u) for h, _f, u in mo.summaries(hx)}
            if got != want or len(sums) != len(got):
                self.viol('mempool/summaries', f'{label}: unconfirmed tx list / has-unconfirmed-inputs flags differ for {hx.hex()}: '
                          f'got {len(sums)} want {len(want)}; flag-only difference: {({h for h, _ in got} == {h for h, _ in want})}')
            for s in sums:
                i = mo.info.get(s.hash)
                if i and not i['genlike'] and s.fee != i['fee']:
                    self.viol('mempool/fee', f'{label}: fee of {s.hash.hex()[:16]} is {s.fee}, expected {i["fee"]}')
            ut = sorted((u.tx_hash, u.tx_pos, u.value) for u in await mp.unordered_UTXOs(hx))
            if ut != mo.unconfirmed_utxos(hx):
                self.viol('mempool/unconfirmed-utxos', f'{label}: unconfirmed UTXOs differ for {hx.hex()}: got {len(ut)} want {len(mo.unconfirmed_utxos(hx))}')
            ps = await mp.potential_spends(hx)
            if not mo.true_spends(hx) <= set(ps):
                self.viol('mempool/potential-spends-misses-spend', f'{label}: a real mempool spend of {hx.hex()} is not in potential_spends')
            if not set(ps) <= mo.touching_prevouts(hx):
                self.viol('mempool/potential-spends-foreign', f'{label}: potential_spends has prevouts of txs that do not touch {hx.hex()}')
            if mo.tx_set(hx):
                self.bump('nonempty_views_compared')
        # touched completeness since the previous synchronised refresh
        sets = {hx: mo.tx_set(hx) for hx in set(self.compare_keys()) | set(mo.by_hx)}
        if self.last_sync_sets is not None:
            changed = {hx for hx in set(sets) | set(self.last_sync_sets)
                       if sets.get(hx, set()) != self.last_sync_sets.get(hx, set())}
            union = set()
            for h in self.handovers[self.last_sync_index:]:
                union |= h['touched']
            missing = changed - union
            self.bump('touched_completeness_checks')
            self.bump('scripthashes_that_changed', len(changed))
            if missing:
                self.viol('mempool/touched-incomplete', f'{label}: {len(missing)} script hash(es) gained or lost an unconfirmed tx since the '
                          f'previous refresh but were not reported as touched, e.g. {sorted(missing)[0].hex()}')
        self.last_sync_sets = sets
        self.last_sync_index = len(self.handovers)

    async def wait_synchronised(self, vtimeout=400):
        '''Wait for a refresh that started and ended with the world at its current version, index at daemon height.
        A placed event may still fire (after its daemon latency) while we wait: then wait for the new version.'''
        w = self.world
        loop = asyncio.get_running_loop()
        end = loop.time() + vtimeout
        while True:
            target = w.version
            start_index = len(self.handovers)

            def ok():
                if w.version != target:
                    return True
                if not self.srv.caught_up():
                    return False
                # the daemon unchanged and the index on the daemon's tip from the listing to the hand-over of that refresh
                return any(h['v_start'] == target and h['v_end'] == target and h['height'] == w.height()
                           and h['tip_start'] == w.tip.hash and h['tip_end'] == w.tip.hash
                           for h in self.handovers[start_index:])
            got = await self.srv.wait_until(ok, max(1.0, end - loop.time()))
            if got and w.version == target:
                return True
            if not got or loop.time() > end:
                return False

    # -- world evolution steps
    def step(self, kind):
        w, rng = self.world, self.rng
        self.event_log.append(kind)
        self.bump(f'step:{kind}')
        if kind == 'add':
            for _ in range(rng.randrange(1, 5)):
                w.mempool_add(parent=rng.choice((None, 'confirmed', 'unconfirmed')))
        elif kind == 'add_chain':
            t = w.mempool_add(parent='confirmed', n_out=2)
            for _ in range(rng.randrange(8, 30)):
                t = w.mempool_add(parent='unconfirmed', n_in=1) or t
        elif kind == 'add_long_chain':
            # one unbroken chain longer than two fetch batches of 200 (a last, tiny batch may hold only parents others wait for)
            if len(w.mempool_chain(self.case.get('long_chain', 401), rng)) > 400:
                self.bump('chains_longer_than_two_fetch_batches')
        elif kind == 'add_many':
            for _ in range(self.case.get('many', 230)):
                w.mempool_add(parent=rng.choice(('confirmed', 'unconfirmed', None)), n_in=1, n_out=2)
        elif kind == 'add_genlike':
            w.mempool_add(generation_like=True)
        elif kind == 'evict':
            if w.mempool:
                w.mempool_evict(rng.choice(list(w.mempool)))
        elif kind == 'mine_all':
            w.mine(1, confirm='all', ntx=rng.choice((0, 2)))
        elif kind == 'mine_none':
            w.mine(1, confirm='none', ntx=rng.choice((0, 2)))
        elif kind == 'mine_some':
            hs = list(w.mempool)
            w.mine(1, confirm=rng.sample(hs, max(1, len(hs) // 3)) if hs else 'none', ntx=1)
        elif kind == 'mine_parents':
            # confirm only txs that have unconfirmed children (children stay: their flag flips)
            parents = {ph for t in w.mempool.values() for ph, _pi in t.prevouts() if ph in w.mempool}
            w.mine(1, confirm=list(parents) or 'none', ntx=0)
        elif kind == 'reorg':
            d = rng.randrange(1, 3)
            tip = w.fork(d, d + 1, rng=rng)
            w.switch_to(tip)
        elif kind == 'mine2':
            w.mine(2, confirm='all', ntx=1)
        elif kind == 'add_child_of_tip':
            # an unconfirmed tx all of whose inputs were created by non-coinbase txs of the tip block
            outs = [(t.hash, i) for t in w.tip.txs[1:] for i in range(len(t.outs))]
            avail = w.mempool_utxos()
            outs = [o for o in outs if o in avail]
            if outs:
                # ... paying a script its parent does not touch: when a reorg later un-confirms the parent, only the child's
                # has-unconfirmed-inputs flag changes for that script
                from exv.chainsim import Tx, MINUS1
                o = rng.choice(sorted(outs))
                parent = w.txs[o[0]]
                ptouch = {sc for _v, sc in parent.outs} | {w.txs[ph].outs[pi][1] for ph, pi in parent.prevouts() if ph in w.txs}
                cands = [sc for sc in w.scripts[:8] if sc not in ptouch and not unspendable(sc, 10 ** 9, w.activation) and sc[:1] != b'\x6a']
                if cands:
                    w.salt += 1
                    val = avail[o][1]
                    t = Tx([(o[0], o[1], b'', MINUS1)], [(max(0, val - rng.randrange(0, 50)), rng.choice(cands))], locktime=w.salt)
                    w.mempool[t.hash] = t
                    w.txs[t.hash] = t
                    w.bump()
                    self.bump('children_paying_a_script_their_parent_does_not_touch')
                else:
                    w.mempool_add(parent='confirmed', n_in=1, prefer=outs)
        elif kind == 'reorg_noremine':
            # the tip block is replaced and its transactions are not mined again: they return to the mempool
            tip = w.fork(1, 2, rng=rng, remine=0.0, ntx=0)
            w.switch_to(tip)
        else:
            raise ValueError(kind)

    async def bring_up(self, loop, dbdir):
        c, w, rng = self.case, self.world, self.rng
        if c.get('colls'):
            if c.get('coll_kind') == 'diff':
                w.use_collisions(c['colls'], rng, kind='diff', reserve=True)
                w.coll_prob = 1.0
            else:
                w.use_collisions(c['colls'], rng)
        grow_chain(w, c.get('n0', 12) + 1, rng, big=c.get('big_block'))
        w.coll_prob = 0.5
        self.install()
        srv = harness.Server(w, dbdir, flushvec=c.get('flushvec'), prefetch=c.get('prefetch', 100), txindex=c.get('txindex', False),
                             env_extra={'REORG_LIMIT': c.get('reorg_limit', 5)})
        srv.sim.script = self.daemon_script
        self.srv = srv
        srv.start()
        loop.hooks.append(self.invariant_hook)
        ok = await srv.wait_listening(600)
        return ok and not srv.check_task()

    def finish(self, loop):
        out = {'evaluations': 1, 'counters': dict(self.counters), 'sigs': [], 'violations': list(self.violations),
               'inconclusive': list(self.inconclusive)}
        out['counters']['invariant_evaluations'] = self.inv_checks
        out['counters']['refreshes'] = self.refreshes
        exc = self.srv.check_task() if self.srv else None
        if exc:
            last = exc.strip().splitlines()[-1][:200]
            out['violations'].append({'key': 'server-task/exception/' + last.split(':')[0].split('.')[-1],
                                      'what': f'a server task (mempool keep_synchronized / block processor) died: {last}',
                                      'witness': {'case': self.case, 'traceback': exc, 'events': self.event_log[-30:]}})
        if loop is not None:
            out['counters']['jobs'] = loop.gex.n
            out['sigs'].append(digest((self.event_log, self.case.get('txindex'), loop.schedule_hash())))
        return out
