'''Command line: python -m exv.cli <ID> [--tier quick|thorough] [--seed N] [--replay path]'''
import argparse
import importlib
import logging
import os
import sys


def main(argv=None):
    ap = argparse.ArgumentParser()
    ap.add_argument('pid')
    ap.add_argument('--tier', default=os.environ.get('VERIF_TIER') or 'quick',
                    choices=['quick', 'thorough'])
    ap.add_argument('--seed', type=int, default=None)
    ap.add_argument('--replay', default=None)
    args = ap.parse_args(argv)
    seed = args.seed
    if seed is None:
        try:
            seed = int(os.environ.get('VERIF_SEED', '') or 0)
        except ValueError:
            seed = 0
    logging.basicConfig(level=logging.CRITICAL)
    logging.disable(logging.CRITICAL)
    pid = args.pid.upper()
    try:
        mod = importlib.import_module(f'exv.props.{pid.lower()}')
    except ModuleNotFoundError as e:
        if e.name != f'exv.props.{pid.lower()}':
            raise
        print(f'INCONCLUSIVE property={pid} reason=no such check')
        return 2
    code = mod.run(args.tier, seed, replay=args.replay)
    sys.stdout.flush()
    return code


if __name__ == '__main__':
    sys.exit(main())
