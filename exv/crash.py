'''Process-death injection (C04, C05) on a *static* pre-generated world.

A crash case = (scenario, durable event number e, torn-write spec).  The supervisor child forks a
grandchild that runs the real server until it dies with os._exit(77) right before durable event e (or
after a torn prefix of that file write); the supervisor then restarts the server code on the surviving
directory exactly as a restart does and judges what it finds.'''
import asyncio
import os
import random
import shutil

from exv import harness, vloop
from exv.chainsim import World, hashx
from exv.core import digest, scratch_dir
from exv.oracle import ChainOracle
from exv.scen import grow_chain, compare_index, all_keys, sample_outpoints, Monitors


def build_static(case):
    '''Everything the daemon will ever serve, generated from the seed alone.'''
    rng = random.Random(case['wseed'])
    w = World(seed=case['wseed'])
    if case.get('colls'):
        w.use_collisions(case['colls'], rng, kind='any')
    grow_chain(w, case['n0'] + 1, rng)
    big = case.get('big_spend')
    if big:
        # one flush that deletes more than 2*big rows: a fan-out to `big` outputs, flushed, then spent all at once
        u = dict(w.utxos(w.tip))
        script = w.hot[1]
        t1 = w.fan_out_tx(u, w.height() + 1, big, script)
        w.tip = w.make_block(w.tip, extra=[t1], ntx=0)
        grow_chain(w, 1, rng, rich=False)
        u = w.utxos(w.tip)
        outs = [(t1.hash, i) for i in range(big) if (t1.hash, i) in u]
        t2 = w.fan_in_tx(outs, u, w.hot[2])
        w.tip = w.make_block(w.tip, extra=[t2], ntx=0)
        grow_chain(w, 2, rng, rich=False)
        w.features.add('big_spend')
    wide = case.get('wide_payout')
    if wide:
        # one flush whose history touches more than `wide` distinct script hashes: a payout to that many different scripts
        from exv.chainsim import Tx, MINUS1
        u = dict(w.utxos(w.tip))
        o = max(u, key=lambda k: u[k][1])
        per = max(1, u[o][1] // (wide + 1))
        w.salt += 1
        t = Tx([(o[0], o[1], b'', MINUS1)], [(per, b'\x76\xa9\x14' + i.to_bytes(20, 'big') + b'\x88\xac') for i in range(1, wide + 1)],
               locktime=w.salt)
        w.tip = w.make_block(w.tip, extra=[t], ntx=0)
        grow_chain(w, 2, rng, rich=False)
        w.features.add('wide_payout')
    tips = {'A': w.tip}
    fk = case.get('fork')
    if fk:
        depth = max(1, min(fk['depth'], w.height() // 2))
        b = w.fork(depth, depth + fk.get('ext', 1), rng=rng)
        tips['B'] = b
        # continuation chains
        w.switch_to(b)
        grow_chain(w, fk.get('b_more', 2), rng, rich=False)
        tips['B2'] = w.tip
        w.switch_to(tips['A'])
        grow_chain(w, tips['B'].height - tips['A'].height + 2, rng, rich=False)
        tips['A2'] = w.tip       # old branch, now longer than B
        w.switch_to(tips['A'])
    else:
        grow_chain(w, case.get('more', 3), rng, rich=False)
        tips['A+'] = w.tip
        w.switch_to(tips['A'])
    a0 = case.get('a0')
    if a0:
        tips['A0'] = tips['A'].ancestor(min(a0, tips['A'].height))
    w.tip = tips.get('A0', tips['A'])
    w.bump()
    return w, tips


class EventLog:
    '''Side file (outside the DB directory) with one line per durable event, written before the event.'''

    def __init__(self, path):
        self.fd = os.open(path, os.O_WRONLY | os.O_CREAT | os.O_APPEND, 0o644)
        self.ctx = {'height': None, 'phase': 'forward', 'step': 'start'}

    def on_event(self, label):
        if label.startswith('D:'):
            c = self.ctx
            os.write(self.fd, f'{vloop.Gate.counter}\t{label}\t{c["height"]}\t{c["phase"]}\t{c["step"]}\n'.encode())

    @staticmethod
    def read(path):
        out = []
        try:
            with open(path) as f:
                for line in f:
                    n, label, h, phase, step = line.rstrip('\n').split('\t')
                    out.append({'n': int(n), 'label': label, 'height': None if h == 'None' else int(h), 'phase': phase,
                                'step': step})
        except FileNotFoundError:
            pass
        return out


def install_ctx(elog):
    '''Class-level wrappers that tell the event log which flush (and height) an event belongs to.'''
    from electrumx.server.db import DB
    if not hasattr(DB, '_exv_fu'):
        DB._exv_fu = DB.flush_utxo_db
        DB._exv_fb = DB.flush_backup
    fu, fb = DB._exv_fu, DB._exv_fb

    def flush_utxo_db(self_, flush_data):
        elog.ctx['height'] = flush_data.state.height
        try:
            return fu(self_, flush_data)
        finally:
            elog.ctx['height'] = None

    def flush_backup(self_, flush_data, touched):
        elog.ctx['phase'] = 'backup'
        try:
            return fb(self_, flush_data, touched)
        finally:
            elog.ctx['phase'] = 'forward'
    DB.flush_utxo_db = flush_utxo_db
    DB.flush_backup = flush_backup


async def drive(case, w, tips, dbdir, counters, diffs, step_cb=None, compare=True):
    '''The scenario proper: phases of daemon behaviour with the server following.  Returns the Server.'''
    rng = random.Random(case['wseed'] + 1)
    limit = case.get('reorg_limit', 5)
    srv = harness.Server(w, dbdir, flushvec=case.get('flushvec'), prefetch=case.get('prefetch', 100),
                         env_extra={'REORG_LIMIT': limit})
    if 'A0' in tips:
        k = case.get('grow_at_call', 4)

        def script(info):
            if info['n'] == k and w.tip is tips['A0']:
                return {'mutate': lambda: w.switch_to(tips['A'])}
            return None
        srv.sim.script = script
    srv.start()

    async def settle(label):
        if step_cb:
            step_cb(label)
        ok = await srv.wait_caught_up(600)
        if w.tip is tips.get('A0'):
            w.switch_to(tips['A'])
            ok = await srv.wait_caught_up(600)
        if srv.check_task() or not ok:
            return False
        if compare:
            await compare_index(srv, w, rng, label=label, diffs_out=diffs, counters=counters)
        return True
    if not await settle('phase1'):
        return srv
    mode = case.get('mode', 'forward')
    if mode == 'forward':
        if 'B' in tips:
            w.switch_to(tips['B'])
            if not await settle('phase2-reorg'):
                return srv
            w.switch_to(tips['B2'])
        else:
            w.switch_to(tips['A+'])
        await settle('phase3')
    elif mode == 'natural':
        w.switch_to(tips['B'])
        if not await settle('phase2-reorg'):
            return srv
        cont = case.get('cont', 'stay')
        w.switch_to(tips['B2'] if cont == 'stay' else tips['A2'])
        await settle('phase3-cont')
    elif mode == 'forced':
        await srv.wait_listening(300)
        rpc = srv.client(rpc=True)
        r = await rpc.call('reorg', [case.get('forced_n', 2)])
        await rpc.close()
        counters['forced_reorg_rpc'] = 1 if r and 'result' in r else 0
        if step_cb:
            step_cb('phase2-forced')
        await asyncio.sleep(6)
        await settle('phase2-forced')
    return srv


def final_tip(case, tips):
    mode = case.get('mode', 'forward')
    if mode == 'forward':
        return tips['B2'] if 'B' in tips else tips['A+']
    if mode == 'natural':
        return tips['B2'] if case.get('cont', 'stay') == 'stay' else tips['A2']
    return tips['A']


def run_once(case, dbdir, logpath, crash_at=None, torn=None):
    '''One server life in this process (may die).  Returns dict for the dry run.'''
    harness.db_tweak = harness.small_files if case.get('small_files') else None
    w, tips = build_static(case)
    elog = EventLog(logpath)
    vloop.Gate.counter = 0
    vloop.Gate.log = []
    vloop.Gate.enabled = False        # sequential (eager) scheduling: no need to park jobs at failpoints
    vloop.Gate.crash_at = crash_at
    vloop.Gate.torn = torn
    vloop.Gate.on_event = elog.on_event
    install_ctx(elog)
    mon = Monitors(w)
    mon.install()
    counters, diffs = {}, []

    def step_cb(label):
        elog.ctx['step'] = label

    async def main(loop, _dbdir_unused):
        srv = await drive(case, w, tips, dbdir, counters, diffs, step_cb)
        exc = srv.check_task()
        await srv.stop()
        srv.close_db()
        return exc
    install = harness.install_log_capture
    install()
    loop = vloop.VLoop(seed=case['wseed'], policy='eager', max_vtime=6000, max_jobs=60000)
    asyncio.set_event_loop(loop)
    exc = loop.run_until_complete(main(loop, None))
    loop.gex.drain()
    vloop.Gate.on_event = None
    vloop.Gate.crash_at = None
    return {'exc': exc, 'diffs': diffs, 'counters': counters, 'mon': mon.c, 'events': vloop.Gate.counter}


def dry_child(case):
    '''Uninterrupted run: validates the scenario against the oracle and returns the durable-event log.'''
    base = scratch_dir('exv-dry-')
    try:
        dbdir = os.path.join(base, 'db')
        os.mkdir(dbdir)
        logpath = os.path.join(base, 'events.log')
        res = run_once(case, dbdir, logpath)
        ev = EventLog.read(logpath)
        os.chdir('/')
    finally:
        os.chdir('/')
        shutil.rmtree(base, ignore_errors=True)
    return {'events': ev, 'exc': res['exc'], 'diffs': [(k, l, repr(d)[:300]) for k, l, d in res['diffs']],
            'counters': res['counters'], 'mon': res['mon']}


def crash_child(case):
    '''Supervisor: crash run in a grandchild, then restart + verification here.'''
    out = {'evaluations': 1, 'counters': {}, 'sigs': [], 'violations': [], 'inconclusive': []}
    c = out['counters']
    base = scratch_dir('exv-crash-')
    dbdir = os.path.join(base, 'db')
    os.mkdir(dbdir)
    logpath = os.path.join(base, 'events.log')
    try:
        pid = os.fork()
        if pid == 0:
            try:
                # NB: faulthandler.dump_traceback_later must not be re-armed in a child forked while the parent's
                # watchdog thread is alive (its lock is copied in the held state and the call deadlocks)
                import signal
                signal.signal(signal.SIGALRM, signal.SIG_DFL)
                signal.alarm(case.get('watchdog', 120))
                run_once(case, dbdir, logpath, crash_at=case['crash_at'], torn=case.get('torn'))
            finally:
                os._exit(0)
        _, st = os.waitpid(pid, 0)
        code = os.WEXITSTATUS(st) if os.WIFEXITED(st) else -1
        ev = EventLog.read(logpath)
        if code != 77:
            c['crash_point_not_reached'] = 1
            if code != 0:
                out['inconclusive'].append(f'crash run exited with {code}')
            return out
        crash_ev = ev[-1]
        done = ev[:-1]
        c['crash_runs_died'] = 1
        label = crash_ev['label'] + ('/backup' if crash_ev['phase'] == 'backup' else '')
        tornspec = case.get('torn')
        klass = label + ('/torn' if tornspec is not None and ':file:' in crash_ev['label'] else '')
        c['cut@' + klass] = 1
        # height of the last UTXO batch whose commit completed before the cut
        want_h = -1
        for e in done:
            if e['label'] == 'D:utxo:commit' and e['height'] is not None:
                want_h = e['height']
        w, tips = build_static(case)
        ftip = final_tip(case, tips)
        res = verify_after_crash(case, w, ftip, dbdir, want_h, out, crash_ev, klass)
        out['sigs'].append(digest((case['sid'], klass, sum(1 for e in done if e['label'] == crash_ev['label']), repr(tornspec),
                                   case.get('cont'))))
        if case.get('sample'):
            out['sample'] = {'scenario': case['sid'], 'crash_event': crash_ev, 'torn': tornspec, 'events_before': len(done),
                             'restart_height': res.get('height'), 'expected_height': want_h}
    finally:
        os.chdir('/')
        shutil.rmtree(base, ignore_errors=True)
    return out


def verify_after_crash(case, w, ftip, dbdir, want_h, out, crash_ev, klass):
    c = out['counters']
    info = {}
    witness = {'case': {k: v for k, v in case.items()}, 'crash_event': crash_ev}

    def viol(key, what, extra=None):
        wit = dict(witness)
        if extra:
            wit['detail'] = extra
        out['violations'].append({'key': key, 'what': f'{what} [cut before {klass}, scenario {case["sid"]}]', 'witness': wit})

    async def phase_open(loop, _d):
        # (1) the database opens, (2) at a committed height, (3) equals a clean index to that height
        try:
            db = await harness.open_db(dbdir, genesis_hash=w.genesis.hash, REORG_LIMIT=case.get('reorg_limit', 5))
        except BaseException as e:    # noqa
            import traceback
            viol('restart/open-fails', f'open_for_sync raised {e!r}', traceback.format_exc()[-1500:])
            return False
        h = db.state.height
        info['height'] = h
        c['reopens'] = c.get('reopens', 0) + 1
        ok = True
        if case.get('judge_height', True) and h != want_h:
            viol('restart/height-not-last-commit', f'reopened at height {h}, last committed UTXO batch was at {want_h}')
            ok = False
        if h >= 0:
            blk = w.by_hash.get(db.state.tip)
            if blk is None or blk.height != h:
                viol('restart/unknown-tip', f'stored tip at height {h} is not a block of any chain the daemon served')
                ok = False
            else:
                orc = ChainOracle(blk.chain(), w.activation)
                rng = random.Random(1)
                keys = all_keys(w)
                ops = sample_outpoints(orc, rng)
                try:
                    ex = await harness.extract(db, keys, ops)
                    d = harness.compare(ex, orc, keys, ops)
                except harness.ReadStuck as e:
                    d = [('read-never-returns', str(e))]
                except BaseException as e:    # noqa
                    import traceback
                    viol('restart/read-fails', f'reading the reopened index raised {e!r}', traceback.format_exc()[-1500:])
                    d = []
                    ok = False
                c['reopen_comparisons'] = c.get('reopen_comparisons', 0) + 1
                if d and case.get('judge_reopen', True):
                    kinds = sorted({k for k, _ in d})
                    viol('restart/index-differs:' + '+'.join(kinds)[:80], f'reopened index at height {h} differs from a clean index: {d[:3]}')
                    ok = False
                elif d:
                    c['reopen_diffs_not_judged'] = c.get('reopen_diffs_not_judged', 0) + 1
        harness.close_db(db)
        return ok

    async def phase_resume(loop, _d):
        # (4) resuming sync reaches the state of an uninterrupted run
        w.switch_to(ftip)
        srv = harness.Server(w, dbdir, flushvec=case.get('flushvec'), prefetch=case.get('prefetch', 100),
                             env_extra={'REORG_LIMIT': case.get('reorg_limit', 5)}).start()
        ok = await srv.wait_caught_up(900)
        exc = srv.check_task()
        if exc:
            last = exc.strip().splitlines()[-1][:200]
            viol('resume/server-dies:' + last.split(':')[0].split('.')[-1], f'resumed server died: {last}', exc)
        elif not ok:
            out['inconclusive'].append(f'resumed server made no progress ({case["sid"]} cut {klass})')
        else:
            diffs = []
            limit = case.get('reorg_limit', 5)
            await compare_index(srv, w, random.Random(2), label='resumed', diffs_out=diffs, counters=c,
                                check_undo=limit if case.get('check_undo') else None)
            c['resume_comparisons'] = c.get('resume_comparisons', 0) + 1
            if diffs:
                kinds = sorted({k for k, _l, _d in diffs})
                viol(classify_resume(case, crash_ev, kinds), f'after restart and catch-up the index differs from the daemon chain: '
                     f'{[(k, d) for k, _l, d in diffs[:3]]}', {'kinds': kinds})
            elif case.get('probe_reorg'):
                # C15: the blocks indexed before the (unclean) restart must still be undoable: replace the last `limit`
                depth = max(1, min(limit, w.height() // 2))
                w.switch_to(w.fork(depth, depth + 1, rng=random.Random(case['wseed'] + 5)))
                ok2 = await srv.wait_caught_up(900)
                exc2 = srv.check_task()
                c['probe_reorgs_after_crash_restart'] = c.get('probe_reorgs_after_crash_restart', 0) + 1
                if exc2:
                    last = exc2.strip().splitlines()[-1][:200]
                    viol('probe-reorg/server-dies:' + last.split(':')[0].split('.')[-1], f'a depth-{depth} reorg (limit {limit}) after crash-restart '
                         f'and catch-up failed: {last}', exc2)
                elif not ok2:
                    out['inconclusive'].append('probe reorg after crash-restart made no progress')
                else:
                    diffs = []
                    await compare_index(srv, w, random.Random(3), label='after-probe-reorg', diffs_out=diffs, counters=c, check_undo=limit)
                    if diffs:
                        viol('probe-reorg/index-differs', f'after the probe reorg the index differs: {[(k, d) for k, _l, d in diffs[:3]]}')
        await srv.stop()
        srv.close_db()
        return ok
    vloop.Gate.on_event = None
    vloop.Gate.crash_at = None
    vloop.Gate.torn = None
    harness.db_tweak = harness.small_files if case.get('small_files') else None
    try:
        harness.install_log_capture()
        for phase in (phase_open, phase_resume):
            loop = vloop.VLoop(seed=1, policy='eager', max_vtime=8000, max_jobs=60000)
            asyncio.set_event_loop(loop)
            loop.run_until_complete(phase(loop, None))
            loop.gex.drain()
            os.chdir('/')
    except (vloop.Budget, vloop.Quiescent) as e:
        out['inconclusive'].append(f'verification {type(e).__name__}: {e}')
    return info


def classify_resume(case, crash_ev, kinds):
    hist_only = all(k in ('history', 'history-limit', 'raw-history-rows', 'session-history') for k in kinds)
    if (crash_ev['phase'] == 'backup' and crash_ev['label'] == 'D:utxo:commit' and hist_only
            and (case.get('mode') == 'forced' or case.get('cont') == 'back-to-old')):
        return 'backup-crash/after-history-commit/daemon-still-has-undone-block'
    return 'resume/index-differs:' + '+'.join(kinds)[:80]
