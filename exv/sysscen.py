'''Full-system scenario engine for C07, C10, C11 (and the real-trace part of C20): real server, real
ElectrumX sessions over in-memory transports, world script of blocks / reorgs / mempool changes, client
script of subscribe / unsubscribe / queries, daemon latency, forced intermediate flushes, seeded job
interleaving.  Judged at quiescence (and, for proofs and header notifications, at the client boundary).'''
import asyncio
import json
import random

from exv import harness, vloop
from exv.chainsim import hashx, scripthash_hex, unspendable, dsha, merkle_root
from exv.core import digest
from exv.mpscen import MempoolEngine
from exv.oracle import ChainOracle, MempoolOracle, admissible_statuses, hex_rev
from exv.props.c20 import NotifMonitor
from exv.scen import UndoWindow

WORLD_STEPS = ('add', 'add', 'add_chain', 'evict', 'mine_all', 'mine_none', 'mine_some', 'mine_parents', 'mine2', 'reorg')


def fold_branch(leaf, branch, index):
    h = leaf
    for elt in branch:
        if elt == '*':
            e = h
        else:
            e = bytes.fromhex(elt)[::-1]
        h = dsha(e + h) if index & 1 else dsha(h + e)
        index >>= 1
    return h, index


class SysEngine(MempoolEngine):
    def __init__(self, case):
        super().__init__(case)
        self.clients = []
        self.subs = {}              # (client idx, scripthash) -> state dict
        self.req = {}               # (client idx, request id) -> info
        self.scripts = None
        self.nmon = NotifMonitor()
        self.db_heights_since_mp = set()
        self.proof_log = []
        self.kinds = {}             # violation kind -> belongs to which properties
        self.tips_seen = []
        self.querier = None
        self.uw = None
        self.clock = 0
        self.quiescing = False
        self.big_h = None         # height of the most recent block of >= 200 txs mined by a 'big' op
        self.notify_in_flight = 0
        self.queryable = set()      # hashes of blocks the index has held (flushed) at some instant so far
        self.reply_t = {}
        self.notif_log = []        # (logical time, touched hashXs) of every notification issued

    # -- Notifications instrumentation (C20 monitor on real traces + environment-model membership)
    def install(self):
        super().install()
        import electrumx.server.controller as ctl
        N = getattr(ctl, '_orig', {}).get('Notifications') or ctl.Notifications
        if not hasattr(N, '_exv_on_block'):
            N._exv_on_block = N.on_block
            N._exv_start = N.start
        eng = self
        mp_wrapped = N.on_mempool          # already wrapped by MempoolEngine.install (records hand-overs)
        orig_block, orig_start = N._exv_on_block, N._exv_start

        def dbh():
            return eng.srv.db.state.height if eng.srv and eng.srv.db and eng.srv.db.state else None

        async def on_mempool(self_, touched, height):
            h = dbh()
            eng.db_heights_since_mp.add(h)
            if height not in eng.db_heights_since_mp:
                eng.bump('notif_handover_outside_env_model')
                eng.event_log.append(f'ENV-MODEL: on_mempool({height}) db heights since last refresh {sorted(x for x in eng.db_heights_since_mp if x is not None)}')
            eng.bump('notif_handovers_checked_against_env_model')
            eng.nmon.on_db_height(h)
            eng.nmon.before_handover('mp', height, list(touched))
            r = await mp_wrapped(self_, touched, height)
            eng.nmon.after_handover()
            eng.db_heights_since_mp = {dbh()}
            return r

        async def on_block(self_, touched, height):
            eng.sample_queryable()
            h = dbh()
            eng.db_heights_since_mp.add(h)
            if h != height:
                eng.bump('notif_handover_outside_env_model')
                eng.event_log.append(f'ENV-MODEL: on_block({height}) but db height {h}')
            eng.bump('notif_handovers_checked_against_env_model')
            eng.nmon.on_db_height(h)
            eng.nmon.before_handover('bp', height, list(touched))
            r = await orig_block(self_, touched, height)
            eng.nmon.after_handover()
            return r

        async def start(self_, height, notify_func):
            async def notify(h, touched):
                eng.nmon.on_notify(h, touched)
                eng.bump('notifications_issued')
                if eng.srv.db.state.height < h:
                    eng.bump('notifications_issued_while_index_below_their_height')
                eng.clock += 1
                eng.notif_log.append((eng.clock, set(touched)))
                eng.notify_in_flight += 1
                try:
                    return await notify_func(h, touched)
                finally:
                    eng.notify_in_flight -= 1
            eng.nmon.on_db_height(dbh())
            eng.nmon.on_start(height)
            r = await orig_start(self_, height, notify)
            eng.nmon.started()
            return r
        N.on_mempool, N.on_block, N.start = on_mempool, on_block, start

    def sample_queryable(self):
        db = self.srv.db if self.srv else None
        if db is None or db.state is None:
            return
        b = self.world.by_hash.get(db.state.tip)
        while b is not None and b.hash not in self.queryable:
            self.queryable.add(b.hash)
            b = b.prev

    def db_height_hook(self, loop):
        if self.srv and self.srv.db and self.srv.db.state:
            self.sample_queryable()
            self.db_heights_since_mp.add(self.srv.db.state.height)
            if self.uw is not None and self.srv.caught_up():
                self.uw.observed_caught_up()

    def world_changed(self):
        self.tips_seen.append(self.world.tip)
        if self.uw is not None:
            self.uw.note_daemon_tip()

    # -- client boundary
    def on_write(self, ci):
        def cb(tr, msg):
            if not isinstance(msg, dict):
                return
            if 'id' in msg and 'method' not in msg:
                self.clock += 1
                self.reply_t[(ci, msg['id'])] = self.clock
            if msg.get('method') == 'blockchain.headers.subscribe':
                self.bump('header_notifications_seen')
                p = msg['params'][0]
                h = p['height']
                db = self.srv.db
                # "never sent before that block is queryable": the announced block must be, or have been, part of the
                # flushed index (it may already be on its way out again during a reorg - a later notification corrects that)
                self.sample_queryable()
                blk = dsha(bytes.fromhex(p['hex']))
                now = db.state.height >= h and db.headers_file.read(h * 80, 80).hex() == p['hex']
                if now:
                    self.bump('header_notifications_queryable_at_write')
                if not now and blk not in self.queryable:
                    self.viol('notify/header-before-queryable', f'header notification for height {h} written while the index is at '
                              f'{db.state.height} and has never held that block')
        return cb

    def new_client(self):
        ci = len(self.clients)
        cl = self.srv.client(on_write=self.on_write(ci))
        self.clients.append(cl)
        return ci

    async def send(self, ci, method, params, info):
        cl = self.clients[ci]
        id_ = await cl.send(method, params)
        self.clock += 1
        info = dict(info, method=method, params=params, sent_at=len(cl.tr.out), version=self.world.version,
                    tips_index=len(self.tips_seen), t_sent=self.clock)
        self.req[(ci, id_)] = info
        return id_

    # -- operations
    async def do(self, op):
        w, rng = self.world, self.rng
        kind = op[0]
        self.event_log.append(op)
        if kind == 'w':
            if op[1] == 'reorg_noremine':
                if w.height() >= 4 and self.uw.admissible(w.tip.prev, w.height() + 1):
                    self.step(op[1])
                    self.bump('step:reorg')
            elif op[1] == 'reorg':
                # only admissible forks (within the undo window for every tip the server may still be on)
                d = rng.randrange(1, 3)
                tip = w.fork(d, d + 1, rng=rng)
                if w.height() >= 2 * d + 2 and self.uw.admissible(tip):
                    w.switch_to(tip)
                    self.bump('step:reorg')
                else:
                    self.bump('reorg_skipped_inadmissible')
            else:
                self.step(op[1])
            self.world_changed()
        elif kind == 'reorg_same':
            d = op[1]
            tip = w.fork(d, d, rng=rng)
            if w.height() >= 2 * d + 2 and self.uw.admissible(tip, w.height() + 1):
                w.switch_to(tip)
                self.world_changed()
                self.bump('step:reorg_same_height')
            else:
                self.bump('reorg_skipped_inadmissible')
        elif kind == 'same_switch':
            # the daemon moves to an equal-height branch and gets txs that spend outputs existing only there; the index
            # cannot follow (refreshes drop those txs) until the admin forces a reorg
            d = op[1]
            tip = w.fork(d, d, rng=rng, ntx=3)
            if w.height() >= 2 * d + 2 and self.uw.admissible(tip, w.height() + 1):
                w.switch_to(tip)
                new_outs = [(t.hash, i) for b in tip.chain()[tip.height - d + 1:] for t in b.txs[1:] for i in range(len(t.outs))]
                for _ in range(3):
                    w.mempool_add(parent='confirmed', prefer=new_outs, n_in=1)
                self.world_changed()
                self.bump('step:same_height_switch_with_new_branch_spends')
            else:
                self.bump('reorg_skipped_inadmissible')
        elif kind == 'rpc_reorg':
            # only when the server is observed on the daemon's tip: a second forced reorg before the first has been
            # re-advanced would undo more than the window in total (generator artefact, not a property violation)
            same_height_lag = (len(op) > 2 and op[2] == 'on-stale-branch' and self.srv.bp.state.height == w.height()
                               and self.srv.db.state.height == w.height())
            if (self.srv.caught_up() or same_height_lag) and self.uw.forced_ok(min(op[1], w.height() - 1)):
                rpc = self.srv.client(rpc=True)
                r = await rpc.call('reorg', [op[1]], vtimeout=60)
                await rpc.close()
                if r and 'result' in r:
                    self.bump('step:forced_reorg')
        elif kind == 'sub':
            _k, ci, si = op
            sh = scripthash_hex(self.scripts[si])
            await self.send(ci, 'blockchain.scripthash.subscribe', [sh], {'k': 'sub', 'sh': sh})
            self.bump('client:subscribe')
        elif kind == 'unsub':
            _k, ci, si = op
            sh = scripthash_hex(self.scripts[si])
            await self.send(ci, 'blockchain.scripthash.unsubscribe', [sh], {'k': 'unsub', 'sh': sh})
            self.bump('client:unsubscribe')
        elif kind == 'hsub':
            await self.send(op[1], 'blockchain.headers.subscribe', [], {'k': 'hsub'})
        elif kind == 'q':
            await self.query(op[1], self.querier)
        elif kind == 'qat':
            await self.query(op[1], self.querier, at=op[2])
            self.bump(f'query_aimed:{op[2]}')
        elif kind == 'big':
            # a block of >= 200 txs at the tip (the per-block merkle cache path)
            w.mine(1, confirm='all', ntx=op[1])
            if len(w.tip.txs) >= 200:
                self.big_h = w.height()
                self.bump('step:big_block_at_tip')
            self.world_changed()
        elif kind == 'reorg_small':
            # the last d blocks are replaced by blocks holding only a coinbase (never more txs than the orphaned ones), one longer;
            # later aimed queries go to the first replaced height
            d = op[1]
            if w.height() >= 2 * d + 2:
                tip = w.fork(d, d + 1, rng=rng, remine=0.0, ntx=0)
                if self.uw.admissible(tip):
                    self.big_h = w.height() - d + 1
                    w.switch_to(tip)
                    self.bump('step:reorg_to_smaller_blocks')
                    self.world_changed()
                else:
                    self.bump('reorg_skipped_inadmissible')
        elif kind == 'reorg_big':
            # the recent big block is replaced by another block of >= 200 txs at the same height (one block longer)
            d = op[1] if self.big_h is None else max(op[1], w.height() - self.big_h + 1)
            if w.height() >= 2 * d + 2 and d <= 2:
                tip = w.fork(d, d + 1, rng=rng, remine=0.9, ntx=op[2])
                if self.uw.admissible(tip):
                    old_big = w.active()[self.big_h] if self.big_h is not None else None
                    w.switch_to(tip)
                    if old_big is not None and len(w.active()[self.big_h].txs) >= 200 and w.active()[self.big_h].hash != old_big.hash:
                        self.bump('step:big_block_replaced_by_big_block')
                    self.world_changed()
                else:
                    self.bump('reorg_skipped_inadmissible')
        elif kind == 'sleep':
            await asyncio.sleep(op[1])
        elif kind == 'drop_clients':
            # every client disconnects (also the querying one): for a while nobody is connected to the server
            for cl in self.clients:
                if not cl.tr.closed:
                    await cl.close()
            self.bump('step:all_clients_disconnected')
        elif kind == 'new_clients':
            for _ in range(op[1]):
                ci = self.new_client()
                await self.clients[ci].call('server.version', [f'r{ci}', '1.4.2'])
            self.querier = self.new_client()
            await self.clients[self.querier].call('server.version', ['q2', '1.4.2'])
            self.bump('step:clients_reconnected')

    async def query(self, qk, ci, orc=None, at=None):
        '''A cache-populating / proof request chosen against the daemon's current chain.  at: 'big' aims at the most recent
        block of >= 200 txs, 'tipcp' at a checkpoint at (or just below) the tip.'''
        w, rng = self.world, self.rng
        si = rng.randrange(len(self.scripts))
        sh = scripthash_hex(self.scripts[si])
        chain = w.active()
        h = rng.randrange(max(1, len(chain) - 8), len(chain))
        if rng.random() < 0.3:
            h = rng.randrange(1, len(chain))
        cp_at = None
        if isinstance(at, tuple) and at[0] == 'height':
            # a given height of the chain the *server* is on (blocks about to be undone)
            b = self.world.by_hash.get(self.srv.bp.state.tip)
            if b is not None:
                chain = b.chain()
            h = max(1, min(at[1], len(chain) - 1))
        elif at == 'big' and self.big_h is not None and self.big_h < len(chain):
            h = self.big_h
        elif at == 'tipcp':
            cp_at = len(chain) - 1 - rng.choice((0, 0, 0, 1))
            h = rng.randrange(max(1, cp_at - 6), cp_at + 1)
        blk = chain[h]
        pos = rng.randrange(len(blk.txs))
        txid = blk.txs[pos].hash[::-1].hex()
        if qk in ('get_history', 'get_balance', 'listunspent', 'get_mempool'):
            await self.send(ci, f'blockchain.scripthash.{qk}', [sh], {'k': qk, 'sh': sh})
        elif qk == 'id_from_pos':
            await self.send(ci, 'blockchain.transaction.id_from_pos', [h, pos, False], {'k': qk, 'h': h, 'pos': pos})
        elif qk == 'id_from_pos_merkle':
            await self.send(ci, 'blockchain.transaction.id_from_pos', [h, pos, True], {'k': qk, 'h': h, 'pos': pos})
        elif qk == 'get_merkle':
            await self.send(ci, 'blockchain.transaction.get_merkle', [txid, h], {'k': qk, 'h': h, 'txid': txid})
        elif qk == 'tsc':
            tt = rng.choice(('block_hash', 'block_header', 'merkle_root'))
            await self.send(ci, 'blockchain.transaction.get_tsc_merkle', [txid, h, rng.choice(('txid', 'tx')), tt],
                            {'k': qk, 'h': h, 'txid': txid, 'tt': tt})
        elif qk == 'header_proof':
            cp = cp_at if cp_at is not None else rng.randrange(h, len(chain))
            await self.send(ci, 'blockchain.block.header', [h, cp], {'k': qk, 'h': h, 'cp': cp})
        elif qk == 'headers_proof':
            cnt = rng.randrange(1, 5)
            cp = rng.randrange(min(len(chain) - 1, h + cnt - 1), len(chain))
            if cp_at is not None:
                cnt = min(cnt, cp_at - h + 1)
                cp = cp_at
            await self.send(ci, 'blockchain.block.headers', [h, cnt, cp], {'k': qk, 'h': h, 'cnt': cnt, 'cp': cp})
        elif qk == 'out_of_range':
            which = rng.choice(('height', 'cp', 'pos'))
            H = len(chain) - 1
            if which == 'height':
                await self.send(ci, 'blockchain.transaction.get_merkle', [txid, H + 1 + rng.randrange(3)], {'k': 'refuse'})
            elif which == 'cp':
                await self.send(ci, 'blockchain.block.header', [h, H + 1 + rng.randrange(3)], {'k': 'refuse'})
            else:
                await self.send(ci, 'blockchain.transaction.id_from_pos', [h, len(blk.txs) + rng.randrange(3), True], {'k': 'refuse'})
        self.bump(f'query:{qk}')

    # -- judging
    def branch_blocks_at(self, h):
        return [b for b in self.world.by_hash.values() if b.height == h]

    def judge_proof(self, info, reply, tight_chain=None):
        '''A proof must fold to the root of a chain version: the current chain when tight_chain is given (quiescence),
        otherwise any chain the daemon ever served (sound while reorgs are in flight).'''
        k = info['k']
        res = reply.get('result')
        if k == 'refuse':
            self.bump('out_of_range_requests_judged')
            if 'error' not in reply:
                if tight_chain is None:
                    # sent while events were in flight: the request was outside the daemon's chain, but the server may still
                    # have been on an earlier branch in which it is inside - then the answer must verify against that branch
                    m, pr = info['method'], info['params']
                    sub = ({'k': 'get_merkle', 'h': pr[1], 'txid': pr[0]} if m.endswith('get_merkle') else
                           {'k': 'header_proof', 'h': pr[0], 'cp': pr[1]} if m.endswith('block.header') else
                           {'k': 'id_from_pos_merkle', 'h': pr[0], 'pos': pr[1]})
                    saved, self.violations = self.violations, []
                    try:
                        self.judge_proof(dict(info, **sub), reply, None)
                        bad = bool(self.violations)
                    except (KeyError, IndexError, TypeError, ValueError):
                        bad = True
                    self.violations = saved
                    if not bad:
                        self.bump('out_of_range_answered_correctly_from_an_earlier_served_branch')
                        return
                self.viol('proof/out-of-range-answered', f'a request outside the chain was answered: {info["method"]} {info["params"]}')
            return
        if res is None:
            if tight_chain is not None:
                self.viol('proof/refused-at-quiescence', f'{info["method"]} {info["params"]} refused at quiescence: {str(reply.get("error"))[:150]}')
            else:
                self.bump('proof_requests_refused_during_reorg_window')
                err = reply.get('error') or {}
                if err.get('code') == -32603 and k in ('header_proof', 'headers_proof'):
                    # DBError of the short-read guard in DB.fs_block_hashes: the header read ran while blocks were undone
                    self.bump('header_proofs_refused_by_short_read_guard')
                elif err.get('code') == -102:
                    self.bump('proof_requests_timed_out_during_reorg_window')
                elif 'not on disk' in str(err.get('message')):
                    # a block the daemon has (and the block processor may already hold in memory) that is not flushed yet
                    self.bump('proof_requests_refused_block_not_flushed_yet')
            return
        h = info['h']
        cands = [tight_chain[h]] if tight_chain is not None and h < len(tight_chain) else self.branch_blocks_at(h)
        self.bump('proofs_verified')
        if k in ('get_merkle', 'id_from_pos_merkle', 'tsc'):
            if k == 'get_merkle':
                leaf, branch, pos = bytes.fromhex(info['txid'])[::-1], res['merkle'], res['pos']
            elif k == 'tsc':
                leaf, branch, pos = bytes.fromhex(info['txid'])[::-1], res['nodes'], res['index']
            else:
                leaf, branch, pos = bytes.fromhex(res['tx_hash'])[::-1], res['merkle'], info['pos']
            root, rest = fold_branch(leaf, branch, pos)
            ok = any(b.header[36:68] == root and pos < len(b.txs) and b.txs[pos].hash == leaf for b in cands) and rest == 0
            if ok and k == 'tsc':
                tt = info['tt']
                ok = any((res['target'] == (b.hash[::-1].hex() if tt == 'block_hash' else b.header.hex() if tt == 'block_header'
                                            else b.header[36:68][::-1].hex())) and b.header[36:68] == root for b in cands)
            if not ok:
                self.viol('proof/tx-proof-does-not-verify', f'{info["method"]} {info["params"]}: the proof does not fold to the merkle root '
                          f'of {"the current" if tight_chain is not None else "any served"} block at height {h}')
        elif k in ('header_proof', 'headers_proof'):
            cp = info['cp']
            if k == 'header_proof':
                hh = h
                hdr = bytes.fromhex(res['header'])
            else:
                cnt = res['count']
                if cnt == 0 or 'root' not in res:
                    return
                hh = h + cnt - 1
                hdr = bytes.fromhex(res['hex'])[-80:]
            root, rest = fold_branch(dsha(hdr), res['branch'], hh)
            if root[::-1].hex() != res['root'] or rest != 0:
                self.viol('proof/header-branch-does-not-fold-to-returned-root', f'{info["method"]} {info["params"]}')
                return
            tips = [tight_chain[cp]] if tight_chain is not None and cp < len(tight_chain) else self.branch_blocks_at(cp)
            ok = False
            for t in tips:
                ch = t.chain()
                if ch[hh].header == hdr and merkle_root([b.hash for b in ch]) == root:
                    ok = True
                    break
            if not ok:
                self.viol('proof/header-proof-root-wrong', f'{info["method"]} {info["params"]}: root is not the merkle root of the block hashes up '
                          f'to the checkpoint of {"the current chain" if tight_chain is not None else "any served chain"}')

    def collect_replies(self):
        '''Match replies to requests (per client, by id).'''
        out = []
        for ci, cl in enumerate(self.clients):
            for n, m in enumerate(cl.tr.out):
                if isinstance(m, dict) and 'id' in m and 'method' not in m:
                    info = self.req.get((ci, m['id']))
                    if info is not None:
                        out.append((ci, n, info, m))
        return out

    def read_across_notification(self, hx, sh, kinds=('sub', 'get_history')):
        '''F11 mechanism: a subscribe / history request for this script whose (parked) read spanned a notification that
        touched the script: the reply (and the cache entry) were computed from the pre-notification state.'''
        for (ci, id_), info in self.req.items():
            if info.get('sh') == sh and info['k'] in kinds:
                t0, t1 = info['t_sent'], self.reply_t.get((ci, id_), 10 ** 12)
                if any(t0 < t < t1 and hx in touched for t, touched in self.notif_log):
                    return True
        return False

    def judge_statuses(self, co, mo):
        '''C07: the last status each client holds for every script hash it is subscribed to.'''
        for ci, cl in enumerate(self.clients):
            if cl.tr.closed:
                # the server closed the connection (e.g. notification timeout): the client knows it must reconnect
                self.bump('clients_disconnected_by_server')
                continue
            held = {}      # sh -> (position, status) | removed on unsubscribe
            hdr = None
            hsub = False
            events = []
            for n, m in enumerate(cl.tr.out):
                if not isinstance(m, dict):
                    continue
                if 'method' in m:
                    if m['method'] == 'blockchain.scripthash.subscribe':
                        events.append((n, 'note', m['params'][0], m['params'][1]))
                    elif m['method'] == 'blockchain.headers.subscribe':
                        events.append((n, 'hnote', m['params'][0], None))
                else:
                    info = self.req.get((ci, m.get('id')))
                    if not info:
                        continue
                    if info['k'] == 'sub' and 'result' in m:
                        events.append((n, 'sub', info['sh'], m['result']))
                    elif info['k'] == 'unsub' and m.get('result') is True:
                        events.append((n, 'unsub', info['sh'], None))
                    elif info['k'] == 'hsub' and 'result' in m:
                        events.append((n, 'hnote', m['result'], None))
                        hsub = True
            subscribed = {}
            for n, kind, a, b in events:
                if kind == 'sub':
                    subscribed[a] = b
                elif kind == 'note':
                    if a in subscribed or True:
                        # a notification may overtake the subscribe reply; it only counts if the subscription exists at the end
                        held[a] = b
                    if a in subscribed:
                        subscribed[a] = b
                elif kind == 'unsub':
                    subscribed.pop(a, None)
                elif kind == 'hnote':
                    hdr = a
            # server-side truth about which subscriptions exist (the client cannot know about silently dropped ones)
            for sh, st in subscribed.items():
                si = [scripthash_hex(s) for s in self.scripts].index(sh)
                hx = hashx(self.scripts[si])
                if hx not in cl.session.hashX_subs:
                    continue
                self.bump('held_statuses_judged')
                allowed, exact = admissible_statuses(co, mo, hx)
                if not exact:
                    self.bump('held_statuses_not_exactly_judged')
                    continue
                if st not in allowed:
                    n_conf = len(co.history(hx))
                    n_mp = len(mo.tx_set(hx))
                    key = 'subscriber/stale-status'
                    if self.read_across_notification(hx, sh):
                        key = 'session/stale-read-across-notification'
                    self.viol(key, f'client {ci} holds a status for script {si} that is not the status of the current '
                              f'chain+mempool ({n_conf} confirmed, {n_mp} unconfirmed txs)', {'client': ci, 'script': si, 'held': st})
                else:
                    self.bump('held_statuses_correct')
            if hsub:
                self.bump('held_tips_judged')
                want = {'hex': self.world.tip.header.hex(), 'height': self.world.height()}
                if hdr != want:
                    self.viol('subscriber/stale-tip', f'client {ci} last header notification is height {hdr and hdr.get("height")}, the tip is at '
                              f'{want["height"]} (same height, different header: {bool(hdr) and hdr.get("height") == want["height"]})')

    async def judge_queries_at_quiescence(self, co, mo):
        '''C10: every query a client can make, repeated at quiescence for every script hash and sampled heights.'''
        ci = self.querier
        cl = self.clients[ci]
        for si, s in enumerate(self.scripts):
            sh, hx = scripthash_hex(s), hashx(s)
            r = await cl.call('blockchain.scripthash.get_history', [sh])
            want_conf = [{'tx_hash': hex_rev(h), 'height': ht} for h, ht in co.history(hx)]
            got = (r or {}).get('result')
            self.bump('quiescent_queries_compared', 4)
            want_mp = {(hex_rev(h), -1 if u else 0) for h, f, u in mo.summaries(hx)}
            fees = {hex_rev(h): f for h, f, u in mo.summaries(hx) if not mo.info[h]['genlike']}
            ok = isinstance(got, list) and got[:len(want_conf)] == want_conf
            if ok:
                tail = got[len(want_conf):]
                ok = {(x['tx_hash'], x['height']) for x in tail} == want_mp and len(tail) == len(want_mp) \
                    and all(x.get('fee') == fees[x['tx_hash']] for x in tail if x['tx_hash'] in fees)
            if not ok:
                self.viol('session/stale-read-across-notification' if self.read_across_notification(hx, sh) else 'stale/get_history',
                          f'get_history for script {si} at quiescence differs from the current chain+mempool '
                          f'(confirmed part equal: {isinstance(got, list) and got[:len(want_conf)] == want_conf})')
            r = await cl.call('blockchain.scripthash.get_balance', [sh])
            want = {'confirmed': co.balance(hx), 'unconfirmed': mo.balance_delta(hx)}
            if (r or {}).get('result') != want:
                self.viol('stale/get_balance', f'get_balance for script {si} at quiescence: {(r or {}).get("result")} != {want}')
            r = await cl.call('blockchain.scripthash.listunspent', [sh])
            spends = set()
            for t in self.world.mempool.values():
                spends.update(t.prevouts())
            want_u = sorted((hex_rev(h), pos, ht, v) for (h, pos, v, ht) in co.utxos_of(hx) if (h, pos) not in spends)
            want_u += sorted((hex_rev(h), pos, 0, v) for (h, pos, v) in mo.unconfirmed_utxos(hx) if (h, pos) not in spends)
            got = (r or {}).get('result')
            gotu = sorted((u['tx_hash'], u['tx_pos'], u['height'], u['value']) for u in got) if isinstance(got, list) else None
            if gotu != sorted(want_u):
                self.viol('stale/listunspent', f'listunspent for script {si} at quiescence differs ({gotu and len(gotu)} vs {len(want_u)})')
            r = await cl.call('blockchain.scripthash.get_mempool', [sh])
            got = (r or {}).get('result')
            if not isinstance(got, list) or {(x['tx_hash'], x['height']) for x in got} != {(hex_rev(h), -1 if u else 0) for h, f, u in mo.summaries(hx)}:
                self.viol('stale/get_mempool', f'get_mempool for script {si} at quiescence differs')
        H = co.height
        for h in sorted(set(range(max(0, H - 9), H + 1)) | {0, 1, H // 2}):
            blk = co.chain[h]
            for pos in sorted({0, len(blk.txs) - 1, len(blk.txs) // 2}):
                r = await cl.call('blockchain.transaction.id_from_pos', [h, pos, False])
                self.bump('quiescent_queries_compared')
                if (r or {}).get('result') != blk.txs[pos].hash[::-1].hex():
                    self.viol('stale/id_from_pos', f'id_from_pos({h},{pos}) at quiescence returns a tx that is not at that position of the current chain')

    async def judge_proofs_at_quiescence(self, co):
        ci = self.querier
        chain = co.chain
        marks = len(self.clients[ci].tr.out)
        n = 0
        H = co.height
        heights = sorted(set(range(max(1, H - 9), H + 1)) | {1, H // 2})
        for h in heights:
            blk = chain[h]
            for pos in sorted({0, len(blk.txs) - 1, len(blk.txs) // 2}):
                txid = blk.txs[pos].hash[::-1].hex()
                for (method, params, info) in (
                        ('blockchain.transaction.get_merkle', [txid, h], {'k': 'get_merkle', 'h': h, 'txid': txid}),
                        ('blockchain.transaction.id_from_pos', [h, pos, True], {'k': 'id_from_pos_merkle', 'h': h, 'pos': pos}),
                        ('blockchain.transaction.get_tsc_merkle', [txid, h, 'txid', 'merkle_root'], {'k': 'tsc', 'h': h, 'txid': txid, 'tt': 'merkle_root'})):
                    await self.send(ci, method, params, dict(info, final=True))
                    n += 1
            for cp in sorted({h, H, min(H, h + 1), (h + H) // 2}):
                await self.send(ci, 'blockchain.block.header', [h, cp], {'k': 'header_proof', 'h': h, 'cp': cp, 'final': True})
                n += 1
        for params in ([1, H + 1], [H + 1, H + 1]):
            await self.send(ci, 'blockchain.block.header', params, {'k': 'refuse', 'final': True})
        await self.send(ci, 'blockchain.transaction.get_merkle', [chain[1].txs[0].hash[::-1].hex(), H + 2], {'k': 'refuse', 'final': True})
        await self.send(ci, 'blockchain.transaction.id_from_pos', [1, len(chain[1].txs), True], {'k': 'refuse', 'final': True})
        await self.settle_clients()
        del marks

    async def settle_clients(self, vtimeout=300):
        loop = asyncio.get_running_loop()
        end = loop.time() + vtimeout

        def pending():
            answered = {(ci, m['id']) for ci, cl in enumerate(self.clients) for m in cl.tr.out
                        if isinstance(m, dict) and 'id' in m and 'method' not in m}
            return [k for k in self.req if k not in answered and not self.clients[k[0]].tr.closed]
        while pending():
            if loop.time() > end:
                return False
            await asyncio.sleep(0.25)
        return True

    async def run(self, loop, dbdir):
        c, w, rng = self.case, self.world, self.rng
        if not await self.bring_up(loop, dbdir):
            self.inconclusive.append('server did not come up')
            return
        self.uw = UndoWindow(w, c.get('reorg_limit', 5))
        self.uw.note_daemon_tip()
        if c.get('family'):
            self.bump('family:' + c['family'])
        lp = c.get('longpark')
        if lp:
            # long-park policy: a client read job may stay descheduled across whole polls and refreshes
            held_tasks = set()

            def on_submit(job):
                if self.quiescing:
                    return      # the judging phase itself must not be held back
                t = asyncio.current_task()
                owner = getattr(t.get_coro(), '__qualname__', '') if t else ''
                if 'fetch_and_process_blocks' in owner or 'keep_synchronized' in owner or '_refresh_hashes' in owner:
                    return      # only client-request reads are held back, never the block processor's or the mempool's own
                if c.get('hold_requests_only') and 'notify' in owner.lower():
                    return      # ... and in this family not the reads made while notifying either: a request's read outlasts them
                under = c.get('longpark_start_under')
                if under:
                    # only reads issued from inside the named functions are held, and at their start: the job looks at the
                    # index only after the hold (e.g. the header read of a merkle cache extension, not the request's other reads)
                    import sys
                    f, inside = sys._getframe(1), False
                    while f is not None and not inside:
                        inside = f.f_code.co_name in under
                        f = f.f_back
                    # only the first such read of a request: its retry (after the truncation it slept through) runs at once,
                    # i.e. while the blocks are still undone
                    first = id(t) not in held_tasks
                    if inside and first and rng.random() < lp:
                        held_tasks.add(id(t))
                        job.longpark = 'start'
                        job.park_secs = rng.choice((4, 8, 12, 16, 22))
                        self.bump('jobs_held_at_start')
                    return
                std = job.name.split('.')[-1] in ('read_history', 'read_utxos', 'fs_tx_hashes_at_blockheight', 'read_headers')
                if c.get('hold_any_request_job') and '_throttled_request' not in owner:
                    go = False       # positively a client request's task (not the block processor's locked jobs, prefetches ...)
                elif c.get('hold_any_request_job'):
                    # whatever else a request hands to a worker thread (level computations ...) is held, its reads mostly not, so that
                    # the request gets past its reads before the chain changes
                    go = rng.random() < (0.2 if std else lp)
                    if go and not std:
                        self.bump('other_request_jobs_held')
                else:
                    go = std and rng.random() < lp
                if go:
                    job.longpark = 'job-end'
                    job.park_secs = rng.choice((6, 11, 17, 26))      # below the 30 s request / notification timeouts
                    self.bump('jobs_long_parked')
            loop.gex.on_submit = on_submit
        if c.get('query_at_backup'):
            # by-height proof requests for the very blocks a reorg is about to undo, sent when the first back-up job is submitted;
            # that job is held for a few seconds so that the requests complete (and fill the per-height caches) before the undo
            prev_submit = loop.gex.on_submit
            st_b = {'last': -1}

            def on_submit_b(job):
                if prev_submit:
                    prev_submit(job)
                if job.name.split('.')[-1] == 'backup_block' and not self.quiescing and self.querier is not None:
                    h = self.srv.bp.state.height
                    if st_b['last'] != self.srv.sm._reorg_count:
                        st_b['last'] = self.srv.sm._reorg_count
                        job.longpark = 'start'
                        job.park_secs = 4
                        self.bump('reorgs_with_requests_sent_at_their_first_backup')
                        for dh in (0, 1):
                            for qk in ('id_from_pos_merkle', 'get_merkle', 'id_from_pos'):
                                asyncio.ensure_future(self.query(qk, self.querier, at=('height', h - dh)))
                        # ... and by-script reads, which resolve tx numbers of the blocks about to be undone
                        for qk in ('get_history', 'listunspent', 'get_history', 'get_balance', 'listunspent', 'get_history'):
                            asyncio.ensure_future(self.query(qk, self.querier))
            loop.gex.on_submit = on_submit_b
        loop.hooks.append(self.db_height_hook)
        self.scripts = [s for s in w.scripts if not unspendable(s, 10 ** 9, w.activation) and s[:1] != b'\x6a'][:c.get('nscripts', 8)]
        self.tips_seen.append(w.tip)
        for _ in range(c.get('nclients', 3)):
            ci = self.new_client()
            await self.clients[ci].call('server.version', [f'c{ci}', '1.4.2'])
        self.querier = self.new_client()
        await self.clients[self.querier].call('server.version', ['q', '1.4.2'])
        for op in c['script']:
            await self.do(tuple(op))
            if self.srv.check_task():
                return
        # ---- quiesce
        self.quiescing = True
        self.bump('scripts_run')
        for attempt in range(3):
            if not await self.wait_synchronised(900):
                if self.srv.check_task():
                    return
                if self.world.tip.hash != self.srv.bp.state.tip and self.world.height() <= self.srv.bp.state.height:
                    # daemon on an equal/shorter fork: "once the daemon's chain is longer"
                    self.step('mine_none')
                    self.world_changed()
                    continue
                self.inconclusive.append('no quiescence: index/mempool did not synchronise with a static daemon')
                return
            break
        # "notifications delivered": nothing being notified, no worker job outstanding, then time for delivery
        def idle():
            return self.notify_in_flight == 0 and not loop.gex.jobs
        if not await self.srv.wait_until(idle, 1500):
            self.inconclusive.append('no quiescence: a notification / worker job is still in flight')
            return
        await asyncio.sleep(16)
        if not await self.settle_clients():
            self.inconclusive.append('client requests still unanswered at quiescence')
            return
        if not await self.wait_synchronised(900):
            self.inconclusive.append('lost synchronisation while settling')
            return
        if not await self.srv.wait_until(idle, 1500):
            self.inconclusive.append('no quiescence: activity did not cease')
            return
        co = ChainOracle(w.active(), w.activation)
        mo = MempoolOracle(co, w.mempool)
        self.bump('quiescent_points_judged')
        judge = c.get('judge', ('C07', 'C10', 'C11'))
        if 'C07' in judge:
            self.judge_statuses(co, mo)
            for key, what in self.nmon.violations[:3]:
                self.viol('c20-on-real-trace/' + key, what)
            self.counters['c20_joins_on_real_traces'] = self.nmon.joins
        if 'C10' in judge:
            await self.judge_queries_at_quiescence(co, mo)
        if 'C11' in judge:
            await self.judge_proofs_at_quiescence(co)
            for ci, n, info, m in self.collect_replies():
                if info['k'] in ('get_merkle', 'id_from_pos_merkle', 'tsc', 'header_proof', 'headers_proof', 'refuse'):
                    tight = co.chain if info.get('final') else None
                    if info['k'] == 'refuse' and not info.get('final') and info['version'] != w.version:
                        continue    # the chain may have grown between request generation and handling
                    self.judge_proof(info, m, tight)
        sm = self.srv.sm
        self.counters['history_cache_hits'] = sm._history_hits
        self.counters['tx_hashes_cache_hits'] = sm._tx_hashes_hits
        self.counters['merkle_cache_hits'] = sm._merkle_hits
        self.counters['session_reorg_signals'] = sm._reorg_count
        await self.srv.stop()
        self.srv.close_db()


def gen_race_script(rng, n_events, nclients, nscripts):
    '''Queries sent immediately before a chain change (so that their reads are in flight while blocks are undone).'''
    script = []
    for ci in range(nclients):
        script.append(('hsub', ci))
        for si in rng.sample(range(nscripts), min(3, nscripts)):
            script.append(('sub', ci, si))
    qk = ('id_from_pos', 'id_from_pos', 'get_history', 'get_merkle', 'id_from_pos_merkle', 'listunspent', 'header_proof')
    for _ in range(n_events):
        script.append(('w', rng.choice(('add', 'mine_all', 'mine_some'))))
        script.append(('sleep', rng.choice((6, 12))))
        for _q in range(rng.randrange(2, 5)):
            script.append(('q', rng.choice(qk)))
        script.append(rng.choice((('w', 'reorg'), ('w', 'reorg'), ('rpc_reorg', 2), ('w', 'mine2'))))
        script.append(('sleep', rng.choice((0, 0.05, 6, 12))))
    return script


def gen_lag_script(rng, nclients, nscripts):
    '''A slow mempool refresh (new txs to fetch from a slow daemon) overtaken by a block that touches subscribed scripts.'''
    script = []
    for ci in range(nclients):
        script.append(('hsub', ci))
        for si in range(nscripts):
            script.append(('sub', ci, si))
    script.append(('sleep', 12))
    for _ in range(rng.randrange(1, 4)):
        script.append(('w', 'add'))
        script.append(('sleep', rng.choice((0, 2, 5.1, 6))))
        r = rng.random()
        if r < 0.6:
            script.append(('w', rng.choice(('mine_none', 'mine_none', 'mine_some', 'mine2'))))
        elif r < 0.8:
            # a forced reorg overtaking the slow refresh (which must have started before the blocks are undone)
            script.append(('sleep', rng.choice((5.5, 6, 7))))
            script.append(('rpc_reorg', rng.randrange(1, 3)))
        else:
            script.append(('reorg_same', rng.randrange(1, 3)))
            script.append(('sleep', rng.choice((0, 1, 6))))
            script.append(('w', 'add'))
            script.append(('sleep', rng.choice((0, 2, 5.1))))
            script.append(('rpc_reorg', 2, 'on-stale-branch'))
        script.append(('sleep', rng.choice((20, 40))))
    return script


def gen_subscribe_race_script(rng, nclients, nscripts, rounds=None):
    '''Subscriptions (single and duplicated) whose history read is in flight while a block touching the script is indexed and
    notified; nothing else is subscribed or cached beforehand.'''
    script = [('hsub', ci) for ci in range(nclients)] + [('sleep', 6)]
    order = list(range(min(4, nscripts)))          # the hot scripts: most blocks touch them
    rng.shuffle(order)
    for si in order[:rounds or rng.randrange(2, 5)]:
        script += [('w', 'add'), ('w', 'add'), ('sleep', 6)]
        ci = rng.randrange(nclients)
        script += [('sub', ci, si)] * rng.choice((1, 2, 2, 3))
        if nclients > 1 and rng.random() < 0.3:
            script.append(('sub', 1 - ci, si))
        script += [('sleep', rng.choice((0, 0.05))), ('w', rng.choice(('mine_all', 'mine_all', 'mine_some', 'mine2'))), ('sleep', 25)]
    return script


def gen_nobody_connected_script(rng, nclients, nscripts):
    '''Histories are queried (and cached), every client disconnects, the chain changes while nobody is connected, clients come back.'''
    script = []
    for ci in range(nclients):
        script.append(('hsub', ci))
        script.append(('sub', ci, rng.randrange(nscripts)))
    for _ in range(rng.randrange(1, 3)):
        script += [('w', 'add'), ('w', 'mine_all'), ('sleep', 12)]
        script += [('q', 'get_history') for _q in range(2 * nscripts)] + [('q', 'id_from_pos'), ('q', 'id_from_pos_merkle'), ('sleep', 2)]
        script += [('drop_clients',), ('sleep', rng.choice((0, 1, 6)))]
        script += [('w', 'add'), ('w', rng.choice(('mine_all', 'mine_all', 'reorg', 'mine2'))), ('sleep', rng.choice((12, 20)))]
        if rng.random() < 0.4:
            script += [('rpc_reorg', rng.randrange(1, 3)), ('sleep', 20)]
        script += [('new_clients', nclients), ('sleep', 6)]
        for ci in range(nclients):
            script.append(('q', 'get_history'))
    return script


def gen_unconfirm_script(rng, nclients, nscripts):
    '''A reorg sends the confirmed parent of an unconfirmed tx back to the mempool (its child's flag flips) while the
    child's own scripts are not otherwise touched.'''
    script = []
    for ci in range(nclients):
        script.append(('hsub', ci))
        for si in range(nscripts):
            script.append(('sub', ci, si))
    for _ in range(rng.randrange(1, 3)):
        script += [('w', 'add'), ('w', 'add'), ('sleep', 7), ('w', 'mine_all'), ('sleep', 12),
                   ('w', 'add_child_of_tip'), ('w', 'add_child_of_tip'), ('sleep', 12), ('w', 'reorg_noremine'), ('sleep', 20)]
    return script


def gen_script(rng, n_events, nclients, nscripts, *, queries=True, forced=True):
    '''World + client script.  Clients subscribe early to a few scripts, then events interleave with sleeps.'''
    script = []
    for ci in range(nclients):
        script.append(('hsub', ci))
        for si in rng.sample(range(nscripts), rng.randrange(2, min(6, nscripts) + 1)):
            script.append(('sub', ci, si))
    qkinds = ('get_history', 'get_balance', 'listunspent', 'get_mempool', 'id_from_pos', 'id_from_pos_merkle', 'get_merkle', 'tsc',
              'header_proof', 'headers_proof', 'out_of_range')
    for _ in range(n_events):
        r = rng.random()
        if r < 0.45:
            script.append(('w', rng.choice(WORLD_STEPS)))
        elif r < 0.52 and forced:
            script.append(('rpc_reorg', rng.randrange(0, 3)))
        elif r < 0.58 and forced:
            if rng.random() < 0.4:
                script.append(('same_switch', rng.randrange(1, 3)))
                script.append(('sleep', rng.choice((6, 12))))
                script.append(('rpc_reorg', 3, 'on-stale-branch'))
            else:
                script.append(('reorg_same', rng.randrange(1, 3)))
                if rng.random() < 0.6:
                    script.append(('sleep', rng.choice((0, 1, 6))))
                    script.append(('rpc_reorg', 2, 'on-stale-branch'))
        elif r < 0.7:
            ci = rng.randrange(nclients)
            script.append((rng.choice(('sub', 'sub', 'unsub')), ci, rng.randrange(nscripts)))
        elif queries:
            for _q in range(rng.randrange(1, 4)):
                script.append(('q', rng.choice(qkinds)))
        script.append(('sleep', rng.choice((0, 0, 0.05, 0.3, 1, 3, 5.1, 7, 12))))
    return script


def child(case):
    eng = SysEngine(case)
    loop = None
    try:
        _r, loop = harness.run_scenario(eng.run, seed=case['seed'], policy=case.get('policy', 'random'), p=case.get('p', 0.3),
                                        max_park=case.get('max_park', 60), max_vtime=40000, max_jobs=200000, max_iter=5_000_000)
    except (vloop.Budget, vloop.Quiescent) as e:
        eng.inconclusive.append(f'{type(e).__name__}: {e}')
    out = eng.finish(loop)
    # a run reports only the kinds of the properties it judges (plus dead server tasks); the rest is counted
    prefixes = {'C07': ('subscriber/', 'notify/', 'c20-on-real-trace/', 'session/stale-read'), 'C10': ('stale/', 'session/stale-read'),
                'C11': ('proof/',)}
    allowed = ('server-task/',) + tuple(p for j in case.get('judge', ('C07', 'C10', 'C11')) for p in prefixes.get(j, ()))
    kept = [v for v in out['violations'] if v['key'].startswith(allowed)]
    if len(kept) != len(out['violations']):
        out['counters']['violations_of_other_properties_seen'] = len(out['violations']) - len(kept)
    out['violations'] = kept
    if loop is not None:
        out['sigs'] = [digest(([str(o) for o in case['script']], loop.schedule_hash()))]
    if case.get('sample'):
        out['sample'] = {'script': [list(o) for o in case['script'][:40]], 'handovers': len(eng.handovers),
                         'notifications_issued': eng.counters.get('notifications_issued')}
    return out
