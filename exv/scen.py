'''Index scenario engine shared by C01, C02, C03, C15 (and reused by the fault engines):
real server + simulated daemon + world script; index observables compared with the reference model
at every observed-caught-up point.'''
import asyncio
import random
import traceback

from exv import harness, vloop
from exv.chainsim import World, hashx, scripthash_hex, common_ancestor, ALL_SCRIPTS
from exv.core import digest
from exv.oracle import ChainOracle, hex_rev

KINDS = {
    'C15': None,
    'C01': {'read-never-returns', 'state', 'utxos', 'lookup_utxos', 'raw-u-rows', 'raw-h-rows', 'raw-h-prefix', 'session-balance',
            'session-listunspent'},
    'C02': {'read-never-returns', 'history', 'history-limit', 'txnum->(hash,height)', 'tx_hashes_at_height', 'txnum-beyond-count',
            'raw-history-rows', 'session-history'},
}


def flushvec_of(kind, rng, n=24):
    if kind == 'none':
        return None
    if kind == 'allF':
        return [True]
    if kind == 'allH':
        return [False]
    if kind == 'alt':
        return [False, True]
    if kind == 'HrunF':
        return [False] * rng.randrange(2, 6) + [True]
    if kind == 'sparseF':
        return [None] * rng.randrange(1, 4) + [True]
    if kind == 'random':
        return [rng.choice((None, None, False, True)) for _ in range(n)]
    raise ValueError(kind)


FLUSH_KINDS = ('none', 'allF', 'allH', 'alt', 'HrunF', 'sparseF', 'random', 'random')


def grow_chain(world, n, rng, *, big=None, rich=True):
    '''Mine n blocks with the shapes the statements quantify over.'''
    for i in range(n):
        kw = {}
        r = rng.random()
        if rich:
            if r < 0.15:
                kw['chain_len'] = rng.randrange(3, 7)
            elif r < 0.25:
                kw['fan'] = 'out'
            elif r < 0.35:
                kw['fan'] = 'in'
        if big and i == n // 2:
            kw['ntx'] = big
        world.mine(1, **kw)


class Monitors:
    '''Class-level wrappers installed before bring-up; counters only (no verdicts).'''

    def __init__(self, world):
        self.c = {}
        self.world = world
        self.flags = []

    def bump(self, k, n=1):
        self.c[k] = self.c.get(k, 0) + n

    def install(self):
        import electrumx.server.block_processor as bpmod
        import electrumx.server.controller as ctl
        from electrumx.server.history import History
        from electrumx.server.db import DB
        mon = self
        BP = getattr(ctl, '_origbp', None) or bpmod.BlockProcessor
        if not hasattr(BP, '_exv_spend'):
            BP._exv_spend = BP.spend_utxo
            BP._exv_calc = BP._calc_reorg_range
            History._exv_backup = History.backup
            DB._exv_flush_dbs = DB.flush_dbs
            DB._exv_clear_undo = DB.clear_excess_undo_info
        orig_clear = DB._exv_clear_undo

        def clear_excess_undo_info(self_):
            before = [k for k, _v in self_.utxo_db.db.iterator(prefix=b'U')]
            r = orig_clear(self_)
            after = [int.from_bytes(k[1:], 'big') for k, _v in self_.utxo_db.db.iterator(prefix=b'U') if len(k) == 5]
            mon.bump('opens_checked')
            if len(before) > len(after):
                mon.bump('opens_that_pruned_undo')
                mon.bump('undo_entries_pruned', len(before) - len(after))
            lo = self_.state.height - self_.env.reorg_limit + 1
            stale = [x for x in after if x < lo]
            if stale:
                mon.flags.append(('undo-stale-after-open', {'stale_heights': stale[:10], 'height': self_.state.height,
                                                             'limit': self_.env.reorg_limit}))
            return r
        DB.clear_excess_undo_info = clear_excess_undo_info
        orig_spend = BP._exv_spend

        def spend_utxo(self_, tx_hash, tx_idx):
            key = bytes(tx_hash) + tx_idx.to_bytes(4, 'little')
            in_cache = key in self_.utxo_cache
            member = bytes(tx_hash) in mon.world.coll_hashes
            if in_cache:
                mon.bump('spends_from_cache')
                if member:
                    mon.bump('collision_member_spent_from_cache')
            else:
                mon.bump('spends_from_db')
                n = sum(1 for _ in self_.db.utxo_db.db.iterator(prefix=b'h' + bytes(tx_hash)[:4] + key[-4:]))
                if n > 1:
                    mon.bump('collisions_resolved_from_db')
                    mon.bump(f'collision_candidates_{min(n, 4)}')
            return orig_spend(self_, tx_hash, tx_idx)
        BP.spend_utxo = spend_utxo
        orig_calc = BP._exv_calc

        async def calc(self_, count):
            start, cnt = await orig_calc(self_, count)
            mon.bump('reorg_ranges')
            mon.bump(f'reorg_depth_{cnt}')
            if cnt >= 6:
                mon.bump('reorg_depth_6_or_more')      # deeper than the five block files kept on disk: orphaned blocks are downloaded again
            if cnt >= 4 and count < 0:
                mon.bump('reorg_range_doubling_branch')
            if count >= 0:
                mon.bump('forced_reorgs')
            return start, cnt
        BP._calc_reorg_range = calc
        orig_hb = History._exv_backup

        def hbackup(self_, hashXs, tx_count):
            mon.bump('history_backups')
            return orig_hb(self_, hashXs, tx_count)
        History.backup = hbackup
        orig_fd = DB._exv_flush_dbs

        def flush_dbs(self_, flush_data, flush_utxos, size_remaining):
            if flush_data.state.height != self_.state.height:
                mon.bump('full_flushes' if flush_utxos else 'history_only_flushes')
            return orig_fd(self_, flush_data, flush_utxos, size_remaining)
        DB.flush_dbs = flush_dbs


def all_keys(world):
    keys = [hashx(s) for s in world.scripts]
    keys.append(hashx(b'absent-script-1'))
    return keys


def sample_outpoints(orc, rng, n=40):
    live = list(orc.utxo)
    spent = list(orc.spent)
    ops = rng.sample(live, min(len(live), n)) + rng.sample(spent, min(len(spent), n))
    ops.append((bytes(32), 0))
    ops.append((rng.randbytes(32), 1))
    return ops


async def compare_index(srv, world, rng, *, label, diffs_out, counters, session=False, raw=True, orc=None, stash=None, check_undo=None):
    '''Extract through the public read path and diff against the reference model.'''
    orc = orc or ChainOracle(world.active(), world.activation)
    keys = all_keys(world)
    ops = sample_outpoints(orc, rng)
    try:
        ex = await harness.extract(srv.db, keys, ops, raw=raw)
    except harness.ReadStuck as e:
        diffs_out.append(('read-never-returns', label, str(e)))
        return orc
    if stash is not None:
        stash['ex'], stash['keys'], stash['ops'] = ex, keys, ops
    d = harness.compare(ex, orc, keys, ops)
    counters['index_comparisons'] = counters.get('index_comparisons', 0) + 1
    counters['scripthashes_compared'] = counters.get('scripthashes_compared', 0) + len(keys)
    counters['txnums_compared'] = counters.get('txnums_compared', 0) + len(orc.txnum)
    counters['outpoints_looked_up'] = counters.get('outpoints_looked_up', 0) + len(ops)
    rows = [n for n in ex.get('raw', {}).get('hist_rows', {}).values()] if raw else []
    if rows:
        counters['max_history_rows_per_script'] = max(counters.get('max_history_rows_per_script', 0), max(rows))
    mx = max((len(v) for v in orc.hist.values()), default=0)
    counters['max_history_len'] = max(counters.get('max_history_len', 0), mx)
    for kind, detail in d:
        diffs_out.append((kind, label, detail))
    if raw and check_undo is not None:
        h = orc.height
        have = set(ex['raw']['undo'])
        want = set(range(max(1, h - check_undo + 1), h + 1))
        counters['undo_windows_checked'] = counters.get('undo_windows_checked', 0) + 1
        if not want <= have:
            diffs_out.append(('undo-window-missing', label, {'height': h, 'limit': check_undo, 'missing': sorted(want - have)}))
    if session:
        await session_compare(srv, world, orc, rng, label, diffs_out, counters)
    return orc


async def session_compare(srv, world, orc, rng, label, diffs_out, counters, nscripts=5):
    if not await srv.wait_listening(200):
        return
    c = srv.client()
    scripts = rng.sample(world.scripts, min(nscripts, len(world.scripts)))
    for s in scripts:
        sh = scripthash_hex(s)
        hx = hashx(s)
        r = await c.call('blockchain.scripthash.get_history', [sh])
        counters['session_queries'] = counters.get('session_queries', 0) + 3
        want = [{'tx_hash': hex_rev(h), 'height': ht} for h, ht in orc.history(hx)]
        if r is None or r.get('result') != want:
            if not (r and 'error' in r and 'too large' in str(r['error'])):
                diffs_out.append(('session-history', label, {'script': s, 'got': (r or {}).get('result', r) if r is None else
                                                              (len(r.get('result')) if isinstance(r.get('result'), list) else r),
                                                              'want': len(want)}))
        r = await c.call('blockchain.scripthash.get_balance', [sh])
        if r is None or r.get('result') != {'confirmed': orc.balance(hx), 'unconfirmed': 0}:
            diffs_out.append(('session-balance', label, {'script': s, 'got': r and r.get('result'), 'want': orc.balance(hx)}))
        r = await c.call('blockchain.scripthash.listunspent', [sh])
        want = sorted((hex_rev(h), pos, ht, v) for (h, pos, v, ht) in orc.utxos_of(hx))
        got = sorted((u['tx_hash'], u['tx_pos'], u['height'], u['value']) for u in r['result']) if r and isinstance(r.get('result'), list) else None
        if got != want:
            diffs_out.append(('session-listunspent', label, {'script': s, 'got': got and len(got), 'want': len(want)}))
    await c.close()


class UndoWindow:
    '''Admissibility of daemon chain switches with respect to the undo window (see Engine.admissible): usable by any engine
    that can tell when the server was observed caught up.'''

    def __init__(self, world, limit):
        self.world, self.limit = world, limit
        self.tips = set()
        self.dmax = {}
        self.unproc = set()

    def admissible(self, new_tip, final_height=0):
        hf = max(new_tip.height, final_height)
        for t in self.tips:
            ca = common_ancestor(new_tip, t)
            if ca.height < 0 or t.height - ca.height > self.limit:
                return False
            b = t
            while b is not ca:
                bound = self.dmax.get(b.hash, b.height)
                if b.hash in self.unproc:
                    bound = max(bound, hf)
                if b.height < bound - self.limit + 1:
                    return False
                b = b.prev
        return True

    def forced_ok(self, n):
        for t in self.tips:
            b = t
            for _ in range(n):
                if b is None or b.height < self.dmax.get(b.hash, b.height) - self.limit + 1:
                    return False
                b = b.prev
        return True

    def note_daemon_tip(self):
        t = self.world.tip
        for h in self.unproc:
            self.dmax[h] = max(self.dmax[h], t.height)
        b = t
        while b is not None and b.hash not in self.dmax:
            self.dmax[b.hash] = t.height
            self.unproc.add(b.hash)
            b = b.prev
        self.tips.add(t)

    def observed_caught_up(self):
        self.tips = {self.world.tip}
        self.unproc = set()


class Engine:
    '''Runs a world script against one server (with restarts) inside a VLoop.'''

    def __init__(self, case):
        self.case = case
        self.rng = random.Random(case['seed'])
        self.world = World(seed=case['seed'] * 7 + 1)
        self.mon = Monitors(self.world)
        self.diffs = []
        self.counters = {}
        self.notes = []
        self.inconclusive = []
        self.server_exc = None
        self.tips = set()         # tips the server may still be on since last observed caught up
        self.max_h = 0
        self.limit = case.get('reorg_limit', 5)
        self.stash = {}
        self.pending = {}         # daemon call number -> world mutation still to be applied
        self.compared_version = None
        self.dmax = {}
        self.unproc = set()
        self.overlimit = False

    def bump(self, k, n=1):
        self.counters[k] = self.counters.get(k, 0) + n

    # -- admissible fork construction
    # Undo information for block x is written iff x >= D_x - limit + 1, where D_x is the daemon height cached when
    # x was advanced.  dmax bounds D_x from above for every block the server may hold: blocks of a chain on
    # which the server was observed caught up were advanced with D_x <= that catch-up height; blocks announced
    # later may still be advanced at any time until the next observed catch-up, i.e. with D_x up to the highest
    # daemon tip since.  A fork is admissible when, for every tip the server may still be on, it is at most
    # `limit` deep and every block to be undone is guaranteed to have undo information.
    def admissible(self, new_tip, final_height=0):
        hf = max(new_tip.height, final_height)
        for t in self.tips:
            ca = common_ancestor(new_tip, t)
            if ca.height < 0 or t.height - ca.height > self.limit:
                return False
            b = t
            while b is not ca:
                bound = self.dmax.get(b.hash, b.height)
                if b.hash in self.unproc:
                    bound = max(bound, hf)
                if b.height < bound - self.limit + 1:
                    return False
                b = b.prev
        return True

    def forced_ok(self, n):
        b = self.world.tip
        for _ in range(n):
            if b.height < self.dmax.get(b.hash, b.height) - self.limit + 1:
                return False
            b = b.prev
        return True

    def note_daemon_tip(self):
        t = self.world.tip
        for h in self.unproc:
            self.dmax[h] = max(self.dmax[h], t.height)
        b = t
        while b is not None and b.hash not in self.dmax:
            self.dmax[b.hash] = t.height
            self.unproc.add(b.hash)
            b = b.prev
        self.tips.add(t)
        self.max_h = max(self.max_h, t.height)

    def observed_caught_up(self):
        self.tips = {self.world.tip}
        self.max_h = self.world.tip.height
        self.unproc = set()

    def new_server(self, dbdir):
        c = self.case
        harness.db_tweak = harness.small_files if c.get('small_files') else None
        extra = {'REORG_LIMIT': self.limit}
        extra.update(c.get('env', {}))
        srv = harness.Server(self.world, dbdir, flushvec=c.get('flushvec'), prefetch=c.get('prefetch', 100),
                             env_extra=extra)
        srv.start()
        return srv

    async def sync_and_compare(self, srv, label, session=False):
        while True:
            ok = await srv.wait_caught_up(self.case.get('vtimeout', 600))
            if ok and self.pending:
                # scheduled daemon events whose call number was never reached: apply them now, so that the world
                # is static while the index is read
                for n in sorted(self.pending):
                    self.pending.pop(n)()
                self.bump('pending_events_applied_at_catch_up')
                need = max(t.height for t in self.tips) + 1 - self.world.height()
                if need > 0:
                    grow_chain(self.world, need, self.rng, rich=False)
                    self.note_daemon_tip()
                continue
            break
        exc = srv.check_task()
        if exc:
            self.server_exc = (label, exc)
            return False
        if not ok:
            bp, db = srv.bp, srv.db
            if (bp is not None and bp.caught_up and bp.state is not None and bp.reorg_count is None and db is not None and db.state is not None
                    and bp.state.height == self.world.height() and bp.state.tip == self.world.tip.hash
                    and db.state.height < bp.state.height):
                # the block processor says it has caught up with the daemon (and clients are served from the DB), but what it
                # processed never reached the DB: every query answers for an older height
                self.diffs.append(('state', label, {'db_height_behind_caught_up_block_processor': (db.state.height, bp.state.height)}))
                return False
            self.inconclusive.append(f'no progress before {label}: bp={getattr(srv.bp.state, "height", None) if srv.bp else None} '
                                     f'db={srv.db.state.height if srv.db and srv.db.state else None} daemon={self.world.height()}')
            return False
        self.observed_caught_up()
        self.compared_version = self.world.version
        await compare_index(srv, self.world, self.rng, label=label, diffs_out=self.diffs, counters=self.counters,
                            session=session, stash=self.stash,
                            check_undo=self.limit if self.case.get('check_undo') else None)
        return True

    async def run(self, loop, dbdir):
        c, w, rng = self.case, self.world, self.rng
        if c.get('colls'):
            w.use_collisions(c['colls'], rng, kind='any')     # also families whose members pay different scripts at the same index
        grow_chain(w, c['n0'] + 1, rng, big=c.get('big'))
        self.mon.install()
        # daemon grows during initial sync
        pending_events = self.pending
        for n, k in (c.get('grow') or {}).items():
            pending_events[int(n)] = (lambda k=k: (grow_chain(w, k, rng), self.note_daemon_tip()))

        def script(info):
            n = info['n']
            act = {}
            if n in pending_events:
                fn = pending_events.pop(n)
                act['mutate'] = fn
            lat = c.get('latency')
            if lat:
                act['latency'] = rng.choice(lat)
            return act
        self.note_daemon_tip()
        srv = self.new_server(dbdir)
        srv.sim.script = script
        self.srv = srv
        for hh in c.get('restart_at_heights') or ():
            await srv.wait_until(lambda: srv.bp is not None and srv.bp.state is not None and srv.bp.state.height >= hh, 300)
            if srv.check_task():
                break
            await srv.stop()
            srv.close_db()
            self.bump('ev_restart_during_sync')
            old_script = srv.sim.script
            srv = self.new_server(dbdir)
            srv.sim.script = old_script
            self.srv = srv
        ok = await self.sync_and_compare(srv, 'initial-sync')
        step = 0
        events = list(c.get('events') or [])
        last = len(events) - 1
        for i, ev in enumerate(events):
            if not ok and (self.server_exc or self.inconclusive):
                break
            step += 1
            k = ev['k']
            label = f'ev{i}:{k}'
            if k == 'mine':
                grow_chain(w, ev['n'], rng, rich=ev.get('rich', True))
                self.note_daemon_tip()
                self.bump('ev_mine')
            elif k in ('fork', 'fork_at_call'):
                if k == 'fork_at_call':
                    # first give the server a batch to fetch, then (below) schedule the switch to land inside it
                    grow_chain(w, ev.get('pre', 2), rng, rich=False)
                    self.note_daemon_tip()
                depth = max(1, min(ev['depth'], w.height() // 2))   # statements: chains at least twice as high as the fork is deep
                newlen = max(1, depth + ev.get('ext', 1))
                tip = None
                for _ in range(4):
                    cand = w.fork(depth, newlen, rng=rng, remine=ev.get('remine', 0.5))
                    if ev.get('force') or self.admissible(cand):
                        tip = cand
                        break
                    depth = max(1, depth - 1)
                    newlen = max(1, depth + ev.get('ext', 1))
                if tip is None:
                    self.bump('fork_skipped_inadmissible')
                    continue
                if k == 'fork':
                    if ev.get('force') and not self.admissible(tip):
                        self.overlimit = True
                        self.bump('ev_fork_beyond_window')
                    w.switch_to(tip)
                    self.note_daemon_tip()
                    self.bump('ev_fork')
                    self.bump(f'fork_depth_{depth}')
                    if newlen <= depth:
                        self.bump('fork_equal_or_shorter')
                else:
                    at = len(srv.sim.calls) + ev.get('calls', 2)

                    def do(tip=tip):
                        if self.admissible(tip, max(t.height for t in self.tips) + 1):
                            w.switch_to(tip)
                            self.note_daemon_tip()
                            self.bump('ev_fork_midbatch')
                            need = max(t.height for t in self.tips) + 1 - w.height()
                            if need > 0:
                                grow_chain(w, need, rng, rich=False)
                                self.note_daemon_tip()
                    pending_events[at] = do
            elif k == 'reorg':
                n = min(ev['n'], w.height() - 1) if ev.get('force') else min(ev['n'], self.limit, w.height() - 1)
                if not srv.caught_up():
                    if not await self.sync_and_compare(srv, label + ':pre'):
                        ok = False
                        break
                if ev.get('force'):
                    if n > self.limit or not self.forced_ok(n):
                        self.overlimit = True
                        self.bump('ev_forced_reorg_beyond_window')
                else:
                    while n > 0 and not self.forced_ok(n):
                        n -= 1
                await srv.wait_listening(300)
                rpc = srv.client(rpc=True)
                r = await rpc.call('reorg', [n])
                await rpc.close()
                if not r or 'result' not in r:
                    self.notes.append(f'reorg rpc refused: {r}')
                else:
                    self.bump('ev_forced_reorg')
                    self.bump(f'forced_reorg_{n}')
                    if ev.get('with_switch'):
                        depth = min(rng.randrange(1, self.limit + 1), w.height() - 1)
                        cand = w.fork(depth, depth + rng.choice((0, 1)), rng=rng)
                        if self.admissible(cand):
                            w.switch_to(cand)
                            self.note_daemon_tip()
                            self.bump('forced_reorg_with_daemon_switch')
            elif k == 'restart':
                if ev.get('sync_first', True) and not srv.caught_up():
                    await self.sync_and_compare(srv, label + ':pre')
                await srv.stop()
                srv.close_db()
                self.bump('ev_restart')
                old_script = srv.sim.script
                srv = self.new_server(dbdir)
                srv.sim.script = old_script
                self.srv = srv
            elif k == 'sleep':
                await asyncio.sleep(ev['t'])
            if ev.get('wait', True):
                if k in ('fork', 'reorg') and w.height() <= max(t.height for t in self.tips):
                    # the property speaks about the state once the daemon's chain is longer
                    pass
                if ev.get('extend', k in ('fork', 'reorg', 'fork_at_call')):
                    # "once the daemon's chain is longer than what the server had indexed"
                    await asyncio.sleep(ev.get('delay', rng.choice((0, 0, 1, 6))))
                    need = max(t.height for t in self.tips) + 1 - w.height()
                    if need > 0 or ev.get('always_extend'):
                        grow_chain(w, max(1, need), rng, rich=False)
                        self.note_daemon_tip()
                ok = await self.sync_and_compare(srv, label, session=(i == last and c.get('session', True)))
                if not ok:
                    break
            else:
                await asyncio.sleep(ev.get('delay', rng.choice((0, 0.5, 2, 6))))
        if ok and not events:
            # nothing more: do the session-level comparison on the initial state
            await session_compare(srv, w, ChainOracle(w.active(), w.activation), rng, 'initial-sync', self.diffs, self.counters)
        if ok and self.compared_version != w.version:
            need = max(t.height for t in self.tips) + 1 - w.height()
            if need > 0:
                grow_chain(w, need, rng, rich=False)
                self.note_daemon_tip()
            ok = await self.sync_and_compare(srv, 'final', session=c.get('session', True))
        self.final_orc = None
        exc = srv.check_task()
        if exc and not self.server_exc:
            self.server_exc = ('end', exc)
        await srv.stop()
        srv.close_db()
        return ok


def _lagging_beyond_window(eng):
    import re
    m = re.search(r'ChainError: no undo information found for height ([\d,]+)', eng.server_exc[1])
    srv = getattr(eng, 'srv', None)
    if not m or srv is None:
        return False
    h = int(m.group(1).replace(',', ''))
    cached = srv.adv_log.get(h)
    return cached is not None and h < cached - eng.limit + 1


def result_of(eng, loop, case, pid, extra_sig=()):
    '''Turn an Engine run into the standard child result for property pid.'''
    out = {'evaluations': 1, 'counters': dict(eng.counters), 'sigs': [], 'violations': [], 'inconclusive': list(eng.inconclusive)}
    for k, v in eng.mon.c.items():
        out['counters'][k] = out['counters'].get(k, 0) + v
    for f in eng.world.features:
        out['counters']['feat_' + f] = 1
    if len(eng.world.txs) > 300 and eng.mon.c.get('history_backups'):
        out['counters']['histories_with_txnum_above_255'] = 1
    kinds = KINDS.get(pid)
    seen = set()
    slim = {k: v for k, v in case.items() if k not in ('events',)} | {'events': case.get('events')}
    for kind, label, detail in eng.diffs:
        if kinds is not None and kind not in kinds:
            out['counters']['diffs_belonging_to_other_properties'] = out['counters'].get('diffs_belonging_to_other_properties', 0) + 1
            continue
        key = f'index/{kind}'
        if key in seen:
            continue
        seen.add(key)
        out['violations'].append({'key': key, 'what': f'{kind} differs from the reference model at {label}: {detail}',
                                  'witness': {'case': slim, 'at': label, 'detail': detail}})
    for kind, detail in eng.mon.flags:
        if kinds is None or kind in kinds:
            out['violations'].append({'key': f'index/{kind}', 'what': f'{kind}: {detail}', 'witness': {'case': slim, 'detail': detail}})
    if eng.server_exc and eng.overlimit and 'ChainError' in eng.server_exc[1]:
        out['counters']['beyond_window_outcome_chainerror'] = 1
        out['inconclusive'] = []
    elif eng.server_exc and _lagging_beyond_window(eng):
        # the block processor advanced that block while the daemon was already more than the limit ahead of it, so by the server's
        # own rule no undo information was due; a later switch of the daemon below it is outside the statements (DESIGN 10.4)
        out['counters']['lagging_server_beyond_window_outcome_chainerror'] = 1
        out['inconclusive'] = []
    elif eng.server_exc:
        label, exc = eng.server_exc
        last = exc.strip().splitlines()[-1][:160]
        etype = last.split(':')[0].split('.')[-1]
        out['violations'].append({'key': f'server-task/exception/{etype}', 'what': f'server task died at {label}: {last}',
                                  'witness': {'case': slim, 'traceback': exc}})
    if loop is not None:
        out['counters']['jobs'] = loop.gex.n
        out['counters']['job_segments'] = len(loop.trace)
        out['counters']['loop_iterations'] = loop.iter
        out['sigs'].append(digest((case.get('shape'), case.get('flushkind'), case.get('prefetch'), case.get('reorg_limit'),
                                   [e['k'] + str(e.get('depth', e.get('n', ''))) for e in case.get('events') or []],
                                   loop.schedule_hash() if case.get('sig_schedule') else None, extra_sig)))
    return out


def fresh_diff(eng, case):
    '''Differential: index the final chain with a fresh server and diff every observable (raw rows too).'''
    if not eng.stash.get('ex'):
        return None
    w = eng.world
    ex_main, keys, ops = eng.stash['ex'], eng.stash['keys'], eng.stash['ops']
    holder = {}

    async def fresh(loop, dbdir):
        srv = harness.Server(w, dbdir, prefetch=100, env_extra={'REORG_LIMIT': eng.limit}).start()
        ok = await srv.wait_caught_up(600)
        if ok:
            holder['ex'] = await harness.extract(srv.db, keys, ops)
        await srv.stop()
        srv.close_db()
        return ok
    harness.run_scenario(fresh, seed=1, policy='eager')
    ex = holder.get('ex')
    if ex is None:
        return None
    diffs = []
    for k in ('state', 'headers', 'block_hashes', 'tx_hashes', 'txnum', 'hist', 'hist_limited', 'utxo', 'lookup'):
        if ex_main[k] != ex[k]:
            diffs.append(k)
    for k in ('u', 'h', 'hist'):
        if ex_main['raw'][k] != ex['raw'][k]:
            diffs.append('raw-' + k)
    return diffs


def index_child(case):
    '''Child entry point: case['pid'] selects which diff kinds are violations.'''
    eng = Engine(case)
    loop = None
    try:
        _res, loop = harness.run_scenario(eng.run, seed=case['seed'], policy=case.get('policy', 'random'),
                                          p=case.get('p', 0.3), max_park=case.get('max_park', 60),
                                          max_vtime=case.get('max_vtime', 4000), max_jobs=case.get('max_jobs', 40000),
                                          max_iter=case.get('max_iter', 400000))
    except (vloop.Budget, vloop.Quiescent) as e:
        out = result_of(eng, None, case, case['pid'])
        out['inconclusive'].append(f'{type(e).__name__}: {e} (case {digest(case)})')
        return out
    out = result_of(eng, loop, case, case['pid'])
    if case.get('fresh') and not out['violations'] and not out['inconclusive'] and not eng.server_exc:
        try:
            fd = fresh_diff(eng, case)
        except (vloop.Budget, vloop.Quiescent) as e:
            fd = None
            out['inconclusive'].append(f'fresh index: {e}')
        if fd is not None:
            out['counters']['fresh_index_differentials'] = 1
            if fd:
                out['violations'].append({'key': 'index/differs-from-fresh-index',
                                          'what': f'observables differ from a fresh index of the final chain: {fd}',
                                          'witness': {'case': case, 'kinds': fd}})
    if eng.overlimit and not eng.server_exc and not out['violations']:
        out['counters']['beyond_window_outcome_success'] = 1
    if case.get('sample'):
        out['sample'] = {'case': {k: v for k, v in case.items() if k != 'sample'},
                         'chain_height': eng.world.height(), 'txs': len(eng.world.txs),
                         'schedule_hash': loop.schedule_hash(), 'job_segments': len(loop.trace)}
    return out
