'''C11 - every merkle proof the server hands out verifies against the current chain.'''
import random

from exv.core import Report, run_cases
from exv.props.c07 import gen_cases
from exv.sysscen import child

PID = 'C11'


def stress_child(case):
    '''Concurrent requests on the real MerkleCache whose source reads really suspend; truncations (reorgs) in between.'''
    import asyncio
    from electrumx.lib.merkle import Merkle, MerkleCache
    from exv.props.c12 import mk_hashes, ref_levels, ref_branch
    rng = random.Random(case['seed'])
    out = {'evaluations': 0, 'counters': {}, 'sigs': [], 'violations': []}
    c = out['counters']

    def bump(k, n=1):
        c[k] = c.get(k, 0) + n

    async def one(seq):
        total = rng.randrange(20, 200)
        versions = [mk_hashes(total, rng.randrange(1 << 30))]      # versions[-1] is the current source
        vlog = [0]                                                  # version number at each logical instant

        async def source(start, count):
            v = versions[-1]
            data = v[start:start + count]
            for _ in range(rng.randrange(0, 4)):
                await asyncio.sleep(0)
            if start + count > len(v):
                raise IndexError('source shorter than requested')
            return data
        mc = MerkleCache(Merkle(), source)
        await mc.initialize(rng.randrange(1, total // 2 + 1))

        async def query():
            v0 = len(versions) - 1
            cur = versions[-1]
            length = rng.randrange(1, len(cur) + 1)
            index = rng.randrange(length)
            try:
                b, root = await mc.branch_and_root(length, index)
            except IndexError:
                bump('queries_refused_source_shrank')
                return
            except Exception as e:    # noqa
                if len(versions) - 1 == v0:
                    out['violations'].append({'key': 'cache-stress/raises', 'what': f'concurrent MerkleCache.branch_and_root raised {e!r} with no '
                                              f'truncation in flight', 'witness': {'seed': case['seed'], 'seq': seq}})
                else:
                    bump('queries_raised_during_truncation')
                return
            v1 = len(versions) - 1
            okv = False
            for v in range(v0, v1 + 1):
                src = versions[v]
                if length <= len(src):
                    lv = ref_levels(src[:length])
                    if lv[-1][0] == root and ref_branch(lv, index)[0] == b:
                        okv = True
            bump('concurrent_queries_judged')
            if v1 != v0:
                bump('queries_overlapping_a_truncation')
            if not okv:
                out['violations'].append({'key': 'cache-stress/wrong-proof' + ('-across-truncation' if v1 != v0 else ''),
                                          'what': f'concurrent branch_and_root(length={length}, index={index}) matches no source version in its window '
                                          f'({v1 - v0} truncations in flight)', 'witness': {'seed': case['seed'], 'seq': seq}})

        async def reorg():
            for _ in range(rng.randrange(0, 6)):
                await asyncio.sleep(0)
            cur = versions[-1]
            t = rng.randrange(max(1, len(cur) - 12), len(cur) + 1)
            new = cur[:t] + mk_hashes(rng.randrange(0, 14), rng.randrange(1 << 30))
            if not new:
                return
            versions.append(new)
            mc.truncate(max(1, t))          # as DB.backup_fs does
            bump('truncations')
        for _round in range(case['rounds']):
            tasks = [query() for _ in range(rng.randrange(2, 7))]
            if rng.random() < case['p_reorg']:
                tasks.append(reorg())
            rng.shuffle(tasks)
            await asyncio.gather(*tasks)
            out['evaluations'] += 1
            if out['violations']:
                return

    async def main():
        for s in range(case['nseq']):
            await one(s)
            if out['violations']:
                break
    asyncio.run(main())
    out['sigs'] = [__import__('exv.core', fromlist=['digest']).digest(('stress', case['seed']))]
    return out


def proof_race_cases(tier, seed):
    '''Proof requests in flight while the very block / checkpoint they name is being undone.

    tx: a block of >= 200 txs at the tip, tx proofs for it sent, the block replaced by another big block while the tx-hash
    read is held; afterwards every proof for that height must verify against the replacement (per-height caches).
    hdr: header proofs with the checkpoint at the tip, sent just before a forced or natural reorg; the header read is held
    at its start so that it looks at the index while blocks are undone and the (slow) daemon has not delivered the new ones.'''
    rng = random.Random(seed * 7919 + 11)
    cases = []
    for j in range(36 if tier == 'quick' else 360):
        script = [('hsub', 0), ('sub', 0, 0), ('sleep', 6)]
        if j % 6 == 3:
            # blocks with several txs replaced by coinbase-only blocks; a request every second while the replacements are fetched,
            # processed in memory and - after a slow daemon poll - flushed: some fall between processing and flush, when the
            # hashes file still holds the orphaned hashes at those positions
            fam = 'tx-small'
            for _ in range(rng.randrange(1, 3)):
                script += [('w', 'add'), ('w', 'add'), ('w', 'mine_all'), ('w', 'add'), ('w', 'mine_all'), ('sleep', 12)]
                script += [('reorg_small', rng.randrange(1, 3))]
                for _q in range(24):
                    script += [('sleep', 1), ('qat', rng.choice(('get_merkle', 'id_from_pos_merkle', 'id_from_pos', 'tsc')), 'big')]
                script += [('sleep', 20)]
        elif j % 3 == 0:
            fam = 'tx'
            for _ in range(rng.randrange(1, 3)):
                script += [('big', rng.choice((210, 240, 300))), ('sleep', 12)]
                script += [('qat', rng.choice(('get_merkle', 'id_from_pos_merkle', 'tsc')), 'big') for _q in range(rng.randrange(2, 5))]
                script += [('sleep', rng.choice((0, 0.05))), ('reorg_big', rng.randrange(1, 3), rng.choice((205, 230))), ('sleep', 40)]
                script += [('qat', rng.choice(('get_merkle', 'id_from_pos_merkle', 'tsc')), 'big') for _q in range(2)]
                script += [('sleep', 12)]
        else:
            fam = 'hdr'
            for _ in range(rng.randrange(1, 4)):
                script += [('w', rng.choice(('mine_all', 'mine2', 'add'))), ('sleep', 12)]
                script += [('qat', rng.choice(('header_proof', 'header_proof', 'headers_proof')), 'tipcp') for _q in range(rng.randrange(2, 5))]
                script += [('sleep', rng.choice((0, 0.05))), rng.choice((('rpc_reorg', rng.randrange(1, 4)), ('w', 'reorg'))), ('sleep', 45)]
                script += [('qat', 'header_proof', 'tipcp'), ('sleep', 6)]
        if fam == 'tx' and j % 2 == 0 or fam == 'hdr' and j % 4 == 1 or fam == 'tx-small' and j % 12 == 9:
            extra = {'query_at_backup': True}
        else:
            extra = {}
        if fam == 'tx':
            extra['hold_any_request_job'] = True     # whatever worker job a request submits (reads, level computations ...) may be held
        cases.append({**extra, 'seed': rng.randrange(1 << 30), 'nclients': 1, 'nscripts': 3, 'judge': ['C11'], 'script': script, 'family': fam,
                      'flushkind': 'none', 'flushvec': None, 'policy': rng.choice(('random', 'lazy', 'eager')), 'p': 0.3, 'latency': None,
                      'latency_by_method': ({'rest/block': (4, 8, 12), 'getblockhash': (2, 5)} if fam == 'hdr' else
                                            {'getblockcount': (3, 5, 8)} if fam == 'tx-small' else None),
                      'txindex': j % 4 < 2, 'prefetch': 100, 'n0': rng.choice((24, 36)), 'colls': 0, 'reorg_limit': rng.choice((4, 6)),
                      'longpark': None if fam == 'tx-small' else 0.8, 'longpark_start_under': (('fs_block_hashes',) if fam == 'hdr' else None)})
    return cases


def run(tier, seed, replay=None):
    rep = Report(PID, tier, seed, 'exploration')
    if replay:
        import json
        wcase = json.load(open(replay))['witness']['case']
        if 'max_send' in wcase:
            from exv.props import c17
            for r in run_cases(c17.child, [wcase], watchdog=1500):
                for viol in (r.value['violations'] if r and r.status == 'ok' else []):
                    if viol['key'] == 'headers/proof-does-not-verify':
                        rep.violations.append(dict(viol, key='proof/header-chunk-proof-does-not-verify'))
                rep.evaluations += 1
        else:
            rep.absorb(run_cases(child, [wcase], watchdog=900))
        return rep.finish(rule='replay', min_distinct=0)
    cases = gen_cases(tier, seed, judge=('C11',), queries=True)
    rng = random.Random(seed)
    for i, cse in enumerate(cases):
        if i % 4 == 0:
            cse['big_block'] = rng.choice((200, 230, 420))      # >= 200 txs: the per-block MerkleCache path
        cse['n0'] = rng.choice((20, 30, 44))                    # header cache with several segments
        cse['reorg_limit'] = rng.choice((3, 5))
    rep.absorb(run_cases(child, cases, watchdog=900), 'scenario')
    rep.absorb(run_cases(child, proof_race_cases(tier, seed), watchdog=900), 'proof race')
    # header chunks with proofs on a chain longer than the 2016-header cap (clamped chunks): the C17 long-chain sweep, of which only
    # the proof verdicts are taken over here
    from exv.props import c17
    for r in run_cases(c17.child, [{'seed': seed * 13 + k, 'max_send': 350000, 'nblocks': 2100 + 7 * k} for k in range(1 if tier == 'quick' else 3)], watchdog=1500):
        if r is None or r.status != 'ok':
            rep.inconc(f'long-chain header chunk run failed: {r and r.status}')
            continue
        v = r.value
        rep.count('header_chunk_proofs_verified_on_a_long_chain', v['counters'].get('header_chunk_proofs_verified', 0))
        rep.evaluations += 1
        for viol in v['violations']:
            if viol['key'] == 'headers/proof-does-not-verify':
                rep.violations.append(dict(viol, key='proof/header-chunk-proof-does-not-verify'))
    rep.floor('header_chunk_proofs_verified_on_a_long_chain', rep.counters['header_chunk_proofs_verified_on_a_long_chain'], 150)
    scases = [{'seed': seed * 977 + i, 'nseq': 30 if tier == 'quick' else 400, 'rounds': 12, 'p_reorg': (0.0, 0.3, 0.6)[i % 3]}
              for i in range(32)]
    rep.absorb(run_cases(stress_child, scases, watchdog=900), 'cache stress')
    c = rep.counters
    for name, minimum in {'quiescent_points_judged': 80, 'proofs_verified': 5000, 'out_of_range_requests_judged': 300,
                          'step:reorg': 20, 'step:forced_reorg': 15, 'merkle_cache_hits': 10, 'query:header_proof': 30, 'concurrent_queries_judged': 20000, 'queries_overlapping_a_truncation': 300,
                          'query:tsc': 30, 'step:big_block_replaced_by_big_block': 5,
                          'header_proofs_refused_by_short_read_guard': 2, 'jobs_held_at_start': 40,
                          'reorgs_with_requests_sent_at_their_first_backup': 4, 'step:reorg_to_smaller_blocks': 3}.items():
        rep.floor(name, c[name], minimum)
    return rep.finish(
        rule='the C07 scenarios (chains of 20-44 blocks, a quarter with a 200-420 tx block so that the cached per-block path runs) with a '
             'session requesting get_merkle, get_tsc_merkle (all target types, "*" nodes expanded), id_from_pos(merkle), block.header '
             'and block.headers with cp_height, and out-of-range requests, at script-chosen instants around reorgs under random job '
             'interleaving; every reply is folded by independent code: while events are in flight the root must be that of a block / '
             'chain the daemon served at that height (sound under concurrent reorgs), and at quiescence a dense set of proofs (last ten '
             'heights x three positions x three proof kinds, four checkpoints per height, four out-of-range requests) must verify against '
             'the current chain exactly. Plus a direct stress of the real MerkleCache: 2-6 concurrent branch_and_root calls whose source reads '
             'really suspend, with truncations (source rewritten) in flight; each answer must match a source version of its window. '
             'Proof-race family: a >= 200-tx block at the tip replaced by another big block while tx proofs for it are in flight '
             '(tx-hash read held, result delivered after the undo), and header proofs with the checkpoint at the tip sent just before '
             'a forced / natural reorg with the merkle-cache extension read held at its start, so that it looks at the index while '
             'blocks are undone and a slow daemon has not yet delivered the replacements. '
             'distinct = (script, schedule hash) + stress batches',
        assumptions=['proofs issued while a reorg is in flight are accepted against any chain version the daemon served'])
