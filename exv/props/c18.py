'''C18 - daemon calls ride out transient faults and return only genuine results.

The real electrumx.server.daemon.Daemon over the simulated HTTP session, in virtual time.  The world
changes at every HTTP attempt, so a stale/partial answer is distinguishable.  Offline checker over the
attempt log.'''
import asyncio
import itertools
import os
import random
import shutil

from exv import vloop
from exv.chainsim import World
from exv.core import Report, run_cases, digest, scratch_dir
from exv.simdaemon import SimSession

PID = 'C18'
FAULTS = ['timeout', 'disconnect', 'reset', 'connerr', 'payload', 'oserr', 'http503', 'http500', 'warmup']
CALLS = ['height', 'block_hex_hashes', 'getrawtransactions_T', 'getrawtransactions_F', 'mempool_hashes', 'get_block',
         'getrawtransaction', 'hashes_out_of_range', 'broadcast']


class AttemptWorld:
    '''World view whose answers depend on the number of HTTP attempts so far.'''

    def __init__(self, base, pool):
        self.base, self.pool = base, pool
        self.attempt = 0
        self.by_hash = base.by_hash
        self.txs = base.txs

    def height(self):
        return 10 + self.attempt % 30

    @property
    def tip(self):
        return self.base.tip.ancestor(self.height())

    @property
    def mempool(self):
        a = self.attempt
        return {h: t for i, (h, t) in enumerate(self.pool) if (i + a) % 3 != 0}


def build_world(seed):
    w = World(seed=seed)
    for _ in range(41):
        w.mine(1, ntx=2)
    pool = []
    for _ in range(12):
        t = w.mempool_add()
        if t:
            pool.append((t.hash, t))
    return w, pool


def expected_urls(n_urls, n_attempts, init_retry, max_retry):
    '''Independent model of the back-off/fail-over rule: returns (url index per attempt, delay before each retry).'''
    idx, retry = 0, init_retry
    urls, delays = [], []
    for k in range(n_attempts):
        urls.append(idx)
        if k == n_attempts - 1:
            break
        # attempt k failed
        if retry == max_retry and n_urls > 1:
            idx = (idx + 1) % n_urls
            retry = 0
        delays.append(retry)
        retry = max(min(max_retry, retry * 2), init_retry)
    return urls, delays


async def one_call(coin, aw, sim, call, faults, n_urls, retry_cfg, tmp, down_urls, rng, out, dcache=None):
    from electrumx.server.daemon import Daemon, DaemonError
    loop = asyncio.get_running_loop()
    urls = ','.join(f'http://u:p@host{i}:8332/' for i in range(n_urls))
    kw = {} if retry_cfg is None else {'init_retry': retry_cfg[0], 'max_retry': retry_cfg[1]}
    # the server keeps one Daemon object for its whole life: with dcache the object (URL index, semaphores) is reused across calls
    d = dcache.get((n_urls, retry_cfg)) if dcache is not None else None
    if d is None:
        d = Daemon(coin, urls, **kw)
        if dcache is not None:
            dcache[(n_urls, retry_cfg)] = d
            out['counters']['daemon_objects_shared_across_calls'] = out['counters'].get('daemon_objects_shared_across_calls', 0) + 1
    d.session = sim
    init_retry, max_retry = d.init_retry, d.max_retry
    log = []     # per attempt: (vtime, url index, fault, reply)
    faults = list(faults)
    state = {'k': 0}
    sim.calls.clear()

    dbl, r_ = 0, init_retry
    while r_ < max_retry:
        r_ = min(max_retry, r_ * 2)
        dbl += 1
    # bounded progress: once the scripted faults are over, a URL that is up is reached within one full round of fail-overs
    bound = len(faults) + (n_urls + 1) * (dbl + 2) + 5

    def script(info):
        aw.attempt += 1
        k = state['k']
        state['k'] += 1
        if k > bound and not state.get('stuck'):
            state['stuck'] = True
            asyncio.current_task().cancel()
        ui = int(info['url'].split('host')[1].split(':')[0])
        f = faults[k] if k < len(faults) else None
        if ui in down_urls:
            f = f or 'connerr'
        if f == 'warmup' and info['kind'] == 'get':
            f = 'http503'
        if f and f.startswith('truncate') and info['kind'] != 'get':
            f = 'payload'
        log.append([loop.time(), ui, f, aw.attempt])
        act = {'fault': f, 'warm_index': rng.randrange(8)}
        return act
    sim.script = script

    base = aw.base
    pool_hashes = [h[::-1].hex() for h, _t in aw.pool] + ['ab' * 32]
    rng.shuffle(pool_hashes)
    blk = base.tip.ancestor(rng.randrange(1, 10))
    fname = os.path.join(tmp, 'blk')
    result = exc = None
    try:
        if call == 'height':
            result = await d.height()
        elif call == 'block_hex_hashes':
            result = await d.block_hex_hashes(2, 7)
        elif call == 'hashes_out_of_range':
            result = await d.block_hex_hashes(38, 4)     # beyond the tip at every attempt (height<=39): RPC error -8
        elif call == 'getrawtransactions_T':
            result = await d.getrawtransactions(pool_hashes, replace_errs=True)
        elif call == 'getrawtransactions_F':
            result = await d.getrawtransactions(pool_hashes, replace_errs=False)
        elif call == 'mempool_hashes':
            result = await d.mempool_hashes()
        elif call == 'getrawtransaction':
            result = await d.getrawtransaction(pool_hashes[0], False)
        elif call == 'broadcast':
            result = await d.broadcast_transaction('00')
        elif call == 'get_block':
            result = await d.get_block(blk.hash[::-1].hex(), fname)
    except DaemonError as e:
        exc = ('DaemonError', e)
    except asyncio.CancelledError:
        if not state.get('stuck'):
            raise
        asyncio.current_task().uncancel()
        out['violations'].append({'key': 'daemon/call-does-not-return', 'what': f'{call}: still retrying after {state["k"]} attempts although the '
                                  f'scripted faults ended after {len(faults)} and {n_urls - len(down_urls)} of {n_urls} URLs are up; URLs tried: '
                                  f'{[u for _t, u, _f, _a in log][-12:]} [faults={faults} down={sorted(down_urls)}]',
                                  'witness': {'call': call, 'faults': faults, 'n_urls': n_urls, 'retry': retry_cfg, 'down': sorted(down_urls)}})
        return
    except Exception as e:    # noqa
        exc = (type(e).__name__, e)

    # ---- offline checker over the attempt log
    ctx = {'call': call, 'faults': faults, 'n_urls': n_urls, 'retry': retry_cfg, 'down': sorted(down_urls),
           'attempts': [(round(t, 4), u, f) for t, u, f, _a in log]}

    def viol(key, what):
        out['violations'].append({'key': key, 'what': f'{what} [{call} faults={faults} urls={n_urls}]', 'witness': ctx})

    nfail = sum(1 for _t, _u, f, _a in log if f)
    out['counters']['attempts'] = out['counters'].get('attempts', 0) + len(log)
    out['counters']['faults_injected'] = out['counters'].get('faults_injected', 0) + nfail
    if not log:
        viol('daemon/no-attempt', 'no HTTP attempt was made')
        return
    if log[-1][2]:
        viol('daemon/gave-up-or-returned-on-fault', f'the call ended ({exc[0] if exc else "returned"}) on a faulty attempt')
        return
    if any(not f for _t, _u, f, _a in log[:-1]):
        viol('daemon/retried-after-good-reply', 'a further attempt was made after a fault-free reply (genuine replies and errors must end the call)')
    # world at the successful attempt
    aw.attempt = log[-1][3]
    genuine_error = None
    want = None
    if call == 'height':
        want = aw.height()
    elif call == 'block_hex_hashes':
        want = [aw.tip.ancestor(h).hash[::-1].hex() for h in range(2, 9)]
    elif call == 'hashes_out_of_range':
        genuine_error = True
    elif call.startswith('getrawtransactions'):
        mp = aw.mempool
        want = [(mp[bytes.fromhex(h)[::-1]].raw if bytes.fromhex(h)[::-1] in mp else None) for h in pool_hashes]
        if call.endswith('_F') and any(x is None for x in want):
            genuine_error = True
    elif call == 'mempool_hashes':
        want = [h[::-1].hex() for h in aw.mempool]
    elif call == 'getrawtransaction':
        t = aw.mempool.get(bytes.fromhex(pool_hashes[0])[::-1])
        if t is None:
            genuine_error = True
        else:
            want = t.raw.hex()
    elif call == 'broadcast':
        genuine_error = True
    elif call == 'get_block':
        want = len(blk.raw)
    if genuine_error:
        out['counters']['genuine_rpc_errors'] = out['counters'].get('genuine_rpc_errors', 0) + 1
        if not exc or exc[0] != 'DaemonError':
            viol('daemon/genuine-error-not-raised', f'a genuine RPC error reply was not raised as DaemonError (got {exc[0] if exc else result!r})')
    else:
        out['counters']['results_compared'] = out['counters'].get('results_compared', 0) + 1
        if exc:
            viol('daemon/unexpected-exception', f'{exc[0]}: {exc[1]!r} escaped the call')
        elif result != want:
            stale = False
            viol('daemon/wrong-result', f'result differs from the daemon\'s answer at the successful attempt (stale={stale}): '
                 f'{str(result)[:120]} != {str(want)[:120]}')
        if call == 'get_block' and not exc:
            with open(fname, 'rb') as f:
                data = f.read()
            out['counters']['block_files_compared'] = out['counters'].get('block_files_compared', 0) + 1
            if data != blk.raw:
                viol('daemon/block-file-mismatch', f'block file has {len(data)} bytes, block has {len(blk.raw)} (or content differs)')
    # URL discipline
    want_urls, want_delays = expected_urls(n_urls, len(log), init_retry, max_retry)
    got_urls = [u for _t, u, _f, _a in log]
    got_delays = [round(log[i + 1][0] - log[i][0], 6) for i in range(len(log) - 1)]
    doublings = 0
    r = init_retry
    while r < max_retry:
        r = min(max_retry, r * 2)
        doublings += 1
    run_len = 1
    for i in range(1, len(got_urls)):
        if got_urls[i] != got_urls[i - 1]:
            out['counters']['failovers'] = out['counters'].get('failovers', 0) + 1
            if got_urls[i] != (got_urls[i - 1] + 1) % n_urls:
                viol('daemon/failover-not-round-robin', f'URL sequence {got_urls}')
                break
            # only once the back-off has reached its maximum: doublings+1 failed attempts on the URL left
            if run_len < doublings + 1:
                viol('daemon/failover-before-max-backoff', f'URL changed after {run_len} attempts although the back-off reaches '
                     f'{max_retry} only after {doublings + 1}: urls {got_urls} delays {got_delays[:i]}')
                break
            run_len = 1
        else:
            run_len += 1
            if n_urls > 1 and run_len > doublings + 1:
                viol('daemon/no-failover-at-max-backoff', f'{run_len} consecutive attempts on one URL with {n_urls} URLs '
                     f'(back-off at maximum after {doublings + 1}): {got_urls}')
                break
    if got_urls != want_urls:
        out['counters']['url_sequence_differs_from_model'] = out['counters'].get('url_sequence_differs_from_model', 0) + 1
    if [round(x, 6) for x in want_delays] != got_delays:
        out['counters']['delay_sequence_differs_from_model'] = out['counters'].get('delay_sequence_differs_from_model', 0) + 1


def child(case):
    from exv import harness
    harness.install_log_capture()
    coin = harness.install_coin()
    rng = random.Random(case['seed'])
    out = {'evaluations': 0, 'counters': {}, 'sigs': [], 'violations': []}
    base, pool = build_world(case['wseed'])
    aw = AttemptWorld(base, pool)
    sim = SimSession(aw, chunk=case.get('chunk', 700))
    tmp = scratch_dir('exv-c18-')

    dcache = {}

    async def main(loop):
        for (call, faults, n_urls, retry_cfg, down) in case['runs']:
            cur['run'] = [call, list(faults), n_urls, retry_cfg, list(down)]
            aw.attempt = rng.randrange(0, 5)
            await one_call(coin, aw, sim, call, faults, n_urls, tuple(retry_cfg) if retry_cfg else None, tmp, set(down), rng, out,
                           dcache if case.get('shared') else None)
            out['evaluations'] += 1
            if faults or down:
                out['sigs'].append(digest((call, faults, n_urls, retry_cfg, down)))
            if len(out['violations']) > 8:
                break
    cur = {}
    try:
        vloop.run_vloop(main, seed=case['seed'], policy='eager', max_vtime=1e9, max_iter=10 ** 9, max_jobs=10 ** 9)
    except vloop.Quiescent:
        # no timer, no I/O, no job left while a call is still awaited: the call is blocked for ever (it is not even retrying)
        out['violations'].append({'key': 'daemon/call-blocked-for-ever', 'what': f'a daemon call neither returned nor kept retrying: nothing is '
                                  f'scheduled any more (run {cur.get("run")}, after {out["evaluations"]} completed calls on this Daemon session)',
                                  'witness': {'run': cur.get('run'), 'completed_calls': out['evaluations']}})
    finally:
        shutil.rmtree(tmp, ignore_errors=True)
    seen, vs = set(), []
    for v in out['violations']:
        if v['key'] not in seen:
            seen.add(v['key'])
            vs.append(v)
    out['violations'] = vs
    if case.get('sample'):
        out['sample'] = {'runs': [list(r) for r in case['runs'][:3]]}
    return out


def loopback_child(case):
    '''The same property against a real aiohttp.web server on 127.0.0.1: the faults are the ones aiohttp really raises
    (socket closed without a reply, RST, 503 text, body shorter than its Content-Length, warming-up reply, truncated stream).'''
    import json
    import socket
    import struct
    from aiohttp import web
    from exv import harness
    from electrumx.server.daemon import Daemon, DaemonError
    harness.install_log_capture()
    coin = harness.install_coin()
    out = {'evaluations': 0, 'counters': {}, 'sigs': [], 'violations': []}
    c = out['counters']
    plan, log = [], []
    block = bytes(range(256)) * 400
    tmp = scratch_dir('exv-c18l-')

    def jr(obj):
        return web.Response(body=json.dumps(obj).encode(), headers={'Content-Type': 'application/json'})

    async def handler(request):
        body = await request.read()
        f = plan.pop(0) if plan else None
        log.append(f)
        if f == 'close':
            request.transport.close()
            return web.Response()
        if f == 'rst':
            sock = request.transport.get_extra_info('socket')
            sock.setsockopt(socket.SOL_SOCKET, socket.SO_LINGER, struct.pack('ii', 1, 0))
            request.transport.abort()
            return web.Response()
        if f == '503':
            return web.Response(status=503, text='Work queue depth exceeded')
        if f == 'shortbody':
            resp = web.StreamResponse(headers={'Content-Type': 'application/json', 'Content-Length': '1000'})
            await resp.prepare(request)
            await resp.write(b'{"result": 1')
            request.transport.close()
            return resp
        if request.path.startswith('/rest/block/'):
            resp = web.StreamResponse(headers={'Content-Type': 'application/octet-stream'})
            await resp.prepare(request)
            if f == 'truncblock':
                await resp.write(block[:30000])
                request.transport.close()
                return resp
            await resp.write(block)
            await resp.write_eof()
            return resp
        req = json.loads(body)

        def one(r):
            return {'result': [len(log), r.get('params')], 'error': None, 'id': r['id']}
        if f == 'warm':
            if isinstance(req, list):
                return jr([one(r) if i else {'result': None, 'error': {'code': -28, 'message': 'warming up'}, 'id': r['id']} for i, r in enumerate(req)])
            return jr({'result': None, 'error': {'code': -28, 'message': 'warming up'}, 'id': req['id']})
        return jr([one(r) for r in req] if isinstance(req, list) else one(req))

    async def main():
        app = web.Application()
        app.router.add_route('*', '/{tail:.*}', handler)
        runner = web.AppRunner(app)
        await runner.setup()
        site = web.TCPSite(runner, '127.0.0.1', 0)
        await site.start()
        port = site._server.sockets[0].getsockname()[1]
        try:
            async with Daemon(coin, f'http://u:p@127.0.0.1:{port}/', init_retry=0.005, max_retry=0.02) as d:
                for (call, faults) in case['runs']:
                    plan[:] = list(faults)
                    n0 = len(log)
                    fname = os.path.join(tmp, 'blk')
                    try:
                        if call == 'single':
                            r = await asyncio.wait_for(d._send_single('getblockcount'), 20)
                            ok = r == [len(log), None]
                        elif call == 'vector':
                            r = await asyncio.wait_for(d.block_hex_hashes(3, 4), 20)
                            ok = r == [[len(log), [h]] for h in range(3, 7)]
                        else:
                            r = await asyncio.wait_for(d.get_block('ab' * 32, fname), 20)
                            with open(fname, 'rb') as fh:
                                ok = r == len(block) and fh.read() == block
                    except Exception as e:    # noqa
                        out['violations'].append({'key': f'loopback/escapes-{type(e).__name__}', 'what': f'{call} with real faults {faults} ended with {e!r}',
                                                  'witness': {'call': call, 'faults': list(faults)}})
                        continue
                    out['evaluations'] += 1
                    c['loopback_calls'] = c.get('loopback_calls', 0) + 1
                    c['loopback_real_faults'] = c.get('loopback_real_faults', 0) + len(faults)
                    attempts = len(log) - n0
                    if not ok:
                        out['violations'].append({'key': 'loopback/wrong-result', 'what': f'{call} after real faults {faults} returned {str(r)[:100]} '
                                                  f'(the answer of attempt {len(log)} was expected)', 'witness': {'call': call, 'faults': list(faults)}})
                    if attempts != len(faults) + 1:
                        out['violations'].append({'key': 'loopback/attempt-count', 'what': f'{call} with faults {faults} made {attempts} attempts, expected '
                                                  f'{len(faults) + 1}', 'witness': {'call': call, 'faults': list(faults)}})
                    out['sigs'].append(digest(('loop', call, faults)))
        finally:
            await runner.cleanup()
    try:
        asyncio.run(main())
    finally:
        shutil.rmtree(tmp, ignore_errors=True)
    seen, vs = set(), []
    for v in out['violations']:
        if v['key'] not in seen:
            seen.add(v['key'])
            vs.append(v)
    out['violations'] = vs
    return out


def gen_runs(tier, seed):
    rng = random.Random(seed * 1000003 + 18)
    maxlen = 5 if tier == 'thorough' else 3
    runs = []
    words = [()]
    for n in range(1, maxlen + 1):
        if n <= 3 or tier == 'thorough' and n == 4:
            words += list(itertools.product(FAULTS, repeat=n))
        else:
            words += [tuple(rng.choice(FAULTS) for _ in range(n)) for _ in range(6000)]
    for w in words:
        # each word with a rotating call kind / URL count / retry setting, plus a random second combination
        for rep_ in range(2 if tier == 'quick' else 3):
            call = CALLS[(hash(w) + rep_ * 5) % len(CALLS)] if rep_ else CALLS[len(runs) % len(CALLS)]
            n_urls = rng.choice((1, 2, 3))
            cfg = rng.choice((None, None, (1, 2), (0.5, 0.5)))
            ww = list(w)
            if call == 'get_block' and ww and rng.random() < 0.6:
                ww[rng.randrange(len(ww))] = f'truncate:{rng.randrange(0, 4)}'
            runs.append((call, ww, n_urls, cfg, []))
    # long random sequences and URLs that are permanently down
    for _ in range(400 if tier == 'quick' else 4000):
        n_urls = rng.choice((1, 2, 3))
        down = [] if n_urls == 1 or rng.random() < 0.5 else sorted(rng.sample(range(n_urls), rng.randrange(1, n_urls)))
        n = rng.randrange(4, 41)
        ww = [rng.choice(FAULTS) for _ in range(n)]
        runs.append((rng.choice(CALLS), ww, n_urls, rng.choice((None, (1, 2))), down))
    return runs


def run(tier, seed, replay=None):
    rep = Report(PID, tier, seed, 'fault_enumeration')
    if replay:
        import json
        w = json.load(open(replay))['witness']
        runs = [(w['call'], w['faults'], w['n_urls'], w['retry'], w['down'])]
    else:
        runs = gen_runs(tier, seed)
    per = max(1, len(runs) // 64 + 1)
    cases = [{'seed': seed * 31 + i, 'wseed': 5, 'runs': runs[i:i + per], 'sample': i == 0, 'chunk': (700, 64, 4096)[(i // per) % 3], 'shared': (i // per) % 2 == 1}
             for i in range(0, len(runs), per)]
    rep.absorb(run_cases(child, cases, watchdog=900), 'batch')
    if not replay:
        kinds = ['close', 'rst', '503', 'shortbody', 'warm']
        words = [()] + [(a,) for a in kinds] + [(a, b) for a in kinds for b in kinds]
        if tier == 'thorough':
            words += [(a, b, cc) for a in kinds for b in kinds for cc in kinds]
        lruns = [(call, w) for w in words for call in ('single', 'vector')]
        lruns += [('block', w) for w in [(), ('close',), ('rst',), ('503',), ('truncblock',), ('close', 'truncblock'), ('truncblock', 'truncblock', 'rst')]]
        per = max(1, len(lruns) // 8 + 1)
        rep.absorb(run_cases(loopback_child, [{'runs': lruns[i:i + per]} for i in range(0, len(lruns), per)], watchdog=300), 'loopback batch')
    c = rep.counters
    if not replay:
        rep.floor('results_compared', c['results_compared'], 1000)
        rep.floor('faults_injected', c['faults_injected'], 4000)
        rep.floor('failovers', c['failovers'], 100)
        rep.floor('genuine_rpc_errors', c['genuine_rpc_errors'], 100)
        rep.floor('block_files_compared', c['block_files_compared'], 100)
        rep.floor('loopback_calls', c['loopback_calls'], 60)
        rep.floor('loopback_real_faults', c['loopback_real_faults'], 100)
    rep.exhaustive = True
    return rep.finish(
        rule=f'every fault word of length <= {3 if tier == "quick" else 4} over {FAULTS} (+truncated block streams; longer words '
             'sampled, random words up to 40, permanently-down URLs) x rotating call kind (height, block_hex_hashes, '
             'getrawtransactions with/without error replacement, mempool_hashes, get_block to file, single getrawtransaction, '
             'out-of-range and rejected-broadcast RPC errors) x 1..3 URLs x retry settings; the world changes at every HTTP '
             'attempt. Offline checker over the attempt log: result == answer at the successful attempt (positional), genuine '
             'RPC errors raise DaemonError with no further attempt, no attempt after a good reply, URL changes round-robin and '
             'only after the back-off reached its maximum, bounded consecutive attempts per URL, block file == block. The same '
             'call kinds also run in real time against a real aiohttp.web server on 127.0.0.1 whose faults are real (socket closed '
             'without reply, RST, 503 text, body shorter than Content-Length, warming-up, truncated block stream): fault words <= 2 '
             '(3 in thorough). '
             'distinct = (call, fault word, urls, retry setting, down set)',
        min_distinct=1 if replay else 2,
        assumptions=['simulated faults use aiohttp\'s exception classes; the loopback part uses real sockets but no real timeouts (would need minutes)',
                     'unbounded fault sequences and a daemon that reorders batch replies are out of reach'])
