'''C10 - answers served to clients are never stale once the server is quiescent.'''
from exv.core import Report, run_cases
from exv.props.c07 import gen_cases
from exv.sysscen import child

PID = 'C10'


def run(tier, seed, replay=None):
    rep = Report(PID, tier, seed, 'exploration')
    if replay:
        import json
        rep.absorb(run_cases(child, [json.load(open(replay))['witness']['case']], watchdog=900))
        return rep.finish(rule='replay', min_distinct=0)
    rep.absorb(run_cases(child, gen_cases(tier, seed, judge=('C10',), queries=True), watchdog=900), 'scenario')
    c = rep.counters
    for name, minimum in {'quiescent_points_judged': 80, 'quiescent_queries_compared': 3000, 'history_cache_hits': 200,
                          'tx_hashes_cache_hits': 30, 'step:reorg': 20, 'step:reorg_same_height': 10, 'step:forced_reorg': 15,
                          'session_reorg_signals': 30, 'query:get_history': 50, 'query:id_from_pos': 30,
                          'step:same_height_switch_with_new_branch_spends': 5, 'step:all_clients_disconnected': 6,
                          'reorgs_with_requests_sent_at_their_first_backup': 3}.items():
        rep.floor(name, c[name], minimum)
    return rep.finish(
        rule='the C07 scenarios with a querying session that issues cache-populating requests (get_history, get_balance, listunspent, '
             'get_mempool, id_from_pos, get_merkle, TSC proofs, header proofs) at script-chosen instants before, during and after reorg '
             'windows (natural, forced, same-height) and mempool changes; at quiescence every by-script query is repeated for every '
             'script hash and id_from_pos for the last ten heights x first/middle/last position, and compared with the reference '
             'model of the current chain and mempool (history exact incl. unconfirmed part and fees, balance, unspent multiset minus '
             'mempool spends, mempool list as a set). Cache hit counters prove cached entries were involved. distinct = (script, '
             'schedule hash)',
        assumptions=['fee not compared for txs with generation-like inputs', 'quiescence established by state'])
