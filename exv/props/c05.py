'''C05 - a crash in the middle of undoing blocks is recoverable.'''
import random

from exv.props.c04 import run_crash_property, ASSUME
from exv.scen import flushvec_of

PID = 'C05'


def scenarios(tier, seed):
    rng = random.Random(seed * 1000003 + 5)
    n = 18 if tier == 'quick' else 90
    out = []
    for i in range(n):
        kind = ('stay', 'back-to-old', 'forced')[i % 3]
        fk = ('random', 'alt', 'allF', 'sparseF', 'none')[(i // 3) % 5]
        limit = rng.choice((2, 3, 5))
        sc = {'sid': f's{seed}-{i}-{kind}', 'wseed': rng.randrange(1 << 30), 'n0': rng.choice((10, 14, 18)), 'colls': rng.choice((0, 1)),
              'prefetch': rng.choice((2, 3, 8, 100)), 'reorg_limit': limit, 'flushkind': fk,
              'flushvec': flushvec_of(fk, random.Random(rng.randrange(1 << 30))), 'small_files': i % 2 == 1,
              'judge_reopen': False}   # C05 judges the state after restart *and catch-up*, not the reopened state
        if kind == 'forced':
            sc.update({'mode': 'forced', 'forced_n': rng.randrange(1, limit + 1), 'cont': 'forced-same-chain'})
        else:
            # the way back (B -> old branch) undoes depth+ext blocks: keep that within the limit as well
            if kind == 'back-to-old':
                depth = rng.randrange(1, limit)
                ext = rng.randrange(1, limit - depth + 1)
            else:
                depth, ext = rng.randrange(1, limit + 1), rng.choice((1, 2))
            sc.update({'mode': 'natural', 'cont': kind,
                       'fork': {'depth': depth, 'ext': ext, 'b_more': rng.randrange(1, 3)}})
        out.append(sc)
    return out


def run(tier, seed, replay=None):
    floors = {'crash_runs_died': 60, 'resume_comparisons': 50,
              'cut@D:hist:commit/backup': 20, 'cut@D:utxo:commit/backup': 20, 'dry_history_backups': 20}
    return run_crash_property(
        PID, tier, seed, scenarios(tier, seed), 'backup',
        rule='scenarios with a natural reorg of depth 1..limit (limit in {2,3,5}) or a forced reorg of n blocks on an unchanged chain; '
             'a dry run counts the durable events inside flush_backup of every undone block (history batch commit, UTXO batch commit; '
             'the cut before the history commit of block k is the cut between blocks); every such event is cut, in both tiers; '
             'continuations: daemon stays on the new branch (extended), daemon has returned to the old branch (now longer), forced '
             'reorg where the chain never changed. After restart and catch-up every observable (incl. raw rows) must equal the '
             'reference model of the daemon chain; the reopened index itself must equal a clean index of its own stored tip. '
             'distinct = (scenario, event label, ordinal, continuation)',
        floors=floors, replay=replay, assumptions=ASSUME)
