'''C14 - history compaction never changes any script hash's history.

Databases are produced by the real block processor; the real compact_history() coroutine of the
electrumx_compact_history script is executed with small batch limits and interrupted after batch k
(in-process stop, or process death in a forked grandchild).'''
import asyncio
import importlib.machinery
import importlib.util
import os
import random
import shutil
import signal

from exv import harness, vloop
from exv.chainsim import World
from exv.core import Report, run_cases, digest, scratch_dir, REPO
from exv.oracle import ChainOracle
from exv.scen import grow_chain, compare_index, all_keys, flushvec_of

PID = 'C14'


class StopCompaction(Exception):
    pass


def load_tool():
    path = os.path.join(REPO, 'electrumx_compact_history')
    loader = importlib.machinery.SourceFileLoader('exv_compact_tool', path)
    spec = importlib.util.spec_from_loader('exv_compact_tool', loader)
    mod = importlib.util.module_from_spec(spec)
    loader.exec_module(mod)
    return mod


def run_compaction(dbdir, w, case, stop_after=None, die=False, die_before_set_flush_count=False):
    '''Run the tool's coroutine once.  Returns (batches run, completed?).'''
    from electrumx.server.history import History
    from electrumx.server.db import DB
    tool = load_tool()
    harness.make_env(dbdir, genesis_hash=w.genesis.hash, REORG_LIMIT=case.get('reorg_limit', 5))
    st = {'batches': 0, 'db': None}
    rows = case['row_entries']

    def tweak(db):
        db.history.max_hist_row_entries = rows
        st['db'] = db
    harness.db_tweak = tweak
    if not hasattr(History, '_exv_ch'):
        History._exv_ch = History._compact_history
        DB._exv_sfc = DB.set_flush_count
    orig = History._exv_ch

    def _compact_history(self_, limit):
        if stop_after is not None and st['batches'] >= stop_after:
            if die:
                os._exit(77)
            raise StopCompaction()
        st['batches'] += 1
        return orig(self_, case.get('batch_limit', 1))
    History._compact_history = _compact_history
    orig_sfc = DB._exv_sfc

    def set_flush_count(self_, count):
        if die_before_set_flush_count:
            os._exit(78)
        return orig_sfc(self_, count)
    DB.set_flush_count = set_flush_count
    completed = False
    loop = asyncio.new_event_loop()
    try:
        loop.run_until_complete(tool.compact_history())
        completed = True
    except StopCompaction:
        pass
    finally:
        loop.close()
        History._compact_history = orig
        DB.set_flush_count = orig_sfc
        harness.close_db(st['db'])
        harness.db_tweak = None
        os.chdir('/')
    return st['batches'], completed


def read_txnums(dbdir, w, case, keys):
    res = {}

    async def go():
        db = await harness.open_db(dbdir, genesis_hash=w.genesis.hash, REORG_LIMIT=case.get('reorg_limit', 5))
        for k in keys:
            res[k] = list(db.history.get_txnums(k, None))
        rows = {}
        for key, _v in db.history.db.iterator(prefix=b''):
            if len(key) == 13:
                rows[key[:-2]] = rows.get(key[:-2], 0) + 1
        res['_rows'] = rows
        res['_flush_count'] = db.history.flush_count
        res['_utxo_flush_count'] = db.state.flush_count
        harness.close_db(db)
    loop = asyncio.new_event_loop()
    try:
        loop.run_until_complete(go())
    finally:
        loop.close()
        os.chdir('/')
    return res


def child(case):
    out = {'evaluations': 1, 'counters': {}, 'sigs': [], 'violations': [], 'inconclusive': []}
    c = out['counters']
    harness.install_log_capture()
    vloop.Gate.enabled = False
    rng = random.Random(case['seed'])
    w = World(seed=case['seed'] * 3 + 1)
    if case.get('shared_prefix_scripts', True):
        # two (or three) scripts whose script hashes share their first two bytes - the unit the compaction cursor advances by -
        # used as often as the hot scripts, so that one 2-byte prefix holds several script hashes with many rows
        from exv.chainsim import hashx
        byp = {}
        extra = None
        for i in range(1, 4000):
            sc = b'\x76\xa9\x14' + (case['seed'] % 65536 * 4000 + i).to_bytes(20, 'big') + b'\x88\xac'
            byp.setdefault(hashx(sc)[:2], []).append(sc)
            if len(byp[hashx(sc)[:2]]) >= 2:
                extra = byp[hashx(sc)[:2]]
                break
        if extra:
            w.scripts = list(w.scripts) + extra
            w.hot = list(w.hot) + extra
            c['script_hashes_sharing_a_two_byte_prefix'] = len(extra)
    grow_chain(w, case['n0'] + 1, rng)
    dbdir = scratch_dir('exv-c14-')
    rows = case['row_entries']

    def viol(key, what, detail=None):
        if not any(v['key'] == key for v in out['violations']):
            out['violations'].append({'key': key, 'what': what, 'witness': {'case': case, 'detail': detail}})

    def tweak(db):
        db.history.max_hist_row_entries = rows

    def vrun(coro_fn):
        loop = vloop.VLoop(seed=case['seed'], policy='eager', max_vtime=9000, max_jobs=90000)
        asyncio.set_event_loop(loop)
        try:
            return loop.run_until_complete(coro_fn())
        finally:
            loop.gex.drain()
            os.chdir('/')
    try:
        # 1. a database produced by the real block processor with many flushes
        harness.db_tweak = tweak

        async def build():
            srv = harness.Server(w, dbdir, flushvec=case['flushvec'], prefetch=case.get('prefetch', 100),
                                 env_extra={'REORG_LIMIT': case.get('reorg_limit', 5)}).start()
            ok = await srv.wait_caught_up(900)
            # one more block while caught up: if the last sync block was flushed by cache pressure, first_sync=False is
            # only persisted with the next flush, and the tool refuses a database that still says first_sync
            grow_chain(w, 1, rng, rich=False)
            ok = ok and await srv.wait_caught_up(900)
            exc = srv.check_task()
            await srv.stop()
            srv.close_db()
            return ok and not exc
        if not vrun(build):
            out['inconclusive'].append('could not build the database')
            return out
        keys = all_keys(w)
        before = read_txnums(dbdir, w, case, keys)
        c['max_rows_per_script_before'] = 0
        c['max_rows_per_script_before'] = max(before['_rows'].values(), default=0)
        mode = case['mode']
        k = case.get('k')
        # 2. compaction, interrupted as the case says
        if mode == 'complete':
            nb, done = run_compaction(dbdir, w, case)
            c['compaction_batches'] = nb
            if not done:
                viol('compaction/did-not-complete', 'uninterrupted compaction did not complete')
        elif mode in ('resume', 'abandon'):
            nb, done = run_compaction(dbdir, w, case, stop_after=k)
            c['compaction_batches'] = nb
            if done:
                c['stop_point_beyond_last_batch'] = 1
        elif mode in ('kill', 'kill-resume', 'kill-before-set-flush-count'):
            pid = os.fork()
            if pid == 0:
                try:
                    signal.signal(signal.SIGALRM, signal.SIG_DFL)
                    signal.alarm(120)
                    run_compaction(dbdir, w, case, stop_after=k if mode != 'kill-before-set-flush-count' else None,
                                   die=True, die_before_set_flush_count=(mode == 'kill-before-set-flush-count'))
                finally:
                    os._exit(0)
            _, st = os.waitpid(pid, 0)
            code = os.WEXITSTATUS(st) if os.WIFEXITED(st) else -1
            c[f'compaction_process_exit_{code}'] = 1
            if code == 0:
                c['stop_point_beyond_last_batch'] = 1
        c[f'mode:{mode}'] = 1
        # 3. histories unchanged
        mid = read_txnums(dbdir, w, case, keys)
        c['history_sets_compared'] = c.get('history_sets_compared', 0) + 1
        bad = [kk for kk in keys if mid[kk] != before[kk]]
        if bad:
            key = 'compaction/history-changed'
            final_rows = max((-(-len(before[kk]) // rows) for kk in keys), default=0)      # rows per script after compaction
            if mode == 'kill-before-set-flush-count' and final_rows - 1 > before['_utxo_flush_count']:
                # the completed compaction left the history flush count (= highest compacted row id) above the flush count
                # still recorded in the UTXO DB; the next open takes that for an unclean shutdown and deletes the "excess" rows
                key = 'compaction/kill-before-set-flush-count/compacted-rows-exceed-flush-count'
            viol(key, f'after {mode} compaction (stop after batch {k}) the history of {len(bad)} script hash(es) changed, '
                 f'e.g. {bad[0].hex()}: {len(before[bad[0]])} -> {len(mid[bad[0]])} entries (compacted rows per script up to {final_rows}, '
                 f'UTXO-DB flush count {before["_utxo_flush_count"]})', {'hashX': bad[0]})
            if key != 'compaction/history-changed':
                c['known_mechanism_cases_follow_up_skipped'] = 1
                out['sigs'].append(digest((case['dbid'], rows, case.get('batch_limit', 1), mode, k)))
                return out
        if mode in ('resume', 'kill-resume'):
            nb2, done2 = run_compaction(dbdir, w, case)
            c['resumed_batches'] = nb2
            if not done2:
                viol('compaction/resume-did-not-complete', 'resumed compaction did not complete')
            after = read_txnums(dbdir, w, case, keys)
            c['history_sets_compared'] += 1
            bad = [kk for kk in keys if after[kk] != before[kk]]
            if bad:
                viol('compaction/history-changed-after-resume', f'after stopping at batch {k} and resuming, {len(bad)} histories changed, e.g. '
                     f'{bad[0].hex()}: {len(before[bad[0]])} -> {len(after[bad[0]])}', {'hashX': bad[0]})
            mid = after
        c['max_rows_per_script_after'] = max(mid['_rows'].values(), default=0)
        # 4. a server started afterwards serves the same histories; blocks indexed and undone on top stay exact
        abandoned = mode in ('abandon', 'kill') and not c.get('stop_point_beyond_last_batch')
        if abandoned and mid['_rows'] and max(mid['_rows'].values()) > mid['_flush_count']:
            # the statement's restriction: more compacted rows than the flush count -> clause not evaluated
            c['follow_up_skipped_rows_exceed_flush_count'] = 1
        else:
            diffs = []
            harness.db_tweak = tweak

            async def follow():
                srv = harness.Server(w, dbdir, flushvec=case['flushvec'], prefetch=case.get('prefetch', 100),
                                     env_extra={'REORG_LIMIT': case.get('reorg_limit', 5)}).start()
                if not await srv.wait_caught_up(900) or srv.check_task():
                    return srv.check_task() or 'no progress'
                await compare_index(srv, w, rng, label='server-after-compaction', diffs_out=diffs, counters=c)
                # undo blocks whose history sits in compacted rows (a row boundary may fall inside a block)
                w.switch_to(w.fork(2, 3, rng=rng))
                if not await srv.wait_caught_up(900) or srv.check_task():
                    return srv.check_task() or 'no progress'
                await compare_index(srv, w, rng, label='reorg-into-compacted-rows', diffs_out=diffs, counters=c)
                grow_chain(w, 3, rng)
                if not await srv.wait_caught_up(900) or srv.check_task():
                    return srv.check_task() or 'no progress'
                await compare_index(srv, w, rng, label='blocks-indexed-on-top', diffs_out=diffs, counters=c)
                w.switch_to(w.fork(2, 3, rng=rng))
                if not await srv.wait_caught_up(900) or srv.check_task():
                    return srv.check_task() or 'no progress'
                await compare_index(srv, w, rng, label='reorg-on-top', diffs_out=diffs, counters=c)
                await srv.stop()
                srv.close_db()
                return None
            try:
                err = vrun(follow)
            except (vloop.Budget, vloop.Quiescent) as e:
                err = None
                out['inconclusive'].append(f'follow-up {type(e).__name__}: {e}')
            if err == 'no progress':
                out['inconclusive'].append('follow-up server made no progress')
            elif err:
                last = err.strip().splitlines()[-1][:200]
                viol('follow-up/server-dies:' + last.split(':')[0].split('.')[-1], f'server started after {mode} compaction died: {last}', err)
            c['follow_ups_run'] = 1
            for kind, label, detail in diffs:
                viol(f'follow-up/{label}/{kind}', f'after {mode} compaction (batch {k}), at {label}: {kind} differs: {detail}')
            if not err and not diffs and not out['inconclusive']:
                # 5. the resulting database is again "any database": compact it once more (in one go), histories must not
                #    change, and blocks indexed afterwards must still give exact, ordered histories
                before2 = read_txnums(dbdir, w, case, keys)
                nb3, done3 = run_compaction(dbdir, w, case)
                after2 = read_txnums(dbdir, w, case, keys)
                c['second_compactions'] = 1
                c['history_sets_compared'] += 1
                bad = [kk for kk in keys if after2[kk] != before2[kk]]
                if bad or not done3:
                    viol('second-compaction/history-changed', f'a second compaction (after {mode} compaction and a server run) changed {len(bad)} '
                         f'histories or did not complete ({done3})', {'hashX': bad[0] if bad else None})
                else:
                    diffs2 = []
                    harness.db_tweak = tweak

                    async def follow2():
                        srv = harness.Server(w, dbdir, flushvec=case['flushvec'], prefetch=case.get('prefetch', 100),
                                             env_extra={'REORG_LIMIT': case.get('reorg_limit', 5)}).start()
                        if not await srv.wait_caught_up(900) or srv.check_task():
                            return srv.check_task() or 'no progress'
                        grow_chain(w, 3, rng)
                        if not await srv.wait_caught_up(900) or srv.check_task():
                            return srv.check_task() or 'no progress'
                        await compare_index(srv, w, rng, label='blocks-after-second-compaction', diffs_out=diffs2, counters=c)
                        await srv.stop()
                        srv.close_db()
                        return None
                    try:
                        err2 = vrun(follow2)
                    except (vloop.Budget, vloop.Quiescent) as e:
                        err2 = None
                        out['inconclusive'].append(f'second follow-up {type(e).__name__}: {e}')
                    if err2 == 'no progress':
                        out['inconclusive'].append('second follow-up server made no progress')
                    elif err2:
                        last = err2.strip().splitlines()[-1][:200]
                        viol('second-follow-up/server-dies:' + last.split(':')[0].split('.')[-1], f'server after second compaction died: {last}', err2)
                    for kind, label, detail in diffs2:
                        viol(f'follow-up/{label}/{kind}', f'after {mode} compaction (batch {k}), a server run, a second compaction and three more '
                             f'blocks: {kind} differs: {detail}')
        out['sigs'].append(digest((case['dbid'], rows, case.get('batch_limit', 1), mode, k)))
        if case.get('sample'):
            out['sample'] = {'mode': mode, 'stop_after_batch': k, 'row_entries': rows, 'rows_before': c['max_rows_per_script_before'],
                             'rows_after': c['max_rows_per_script_after'], 'flush_count_before': before['_flush_count'],
                             'flush_count_after': mid['_flush_count']}
    finally:
        harness.db_tweak = None
        os.chdir('/')
        shutil.rmtree(dbdir, ignore_errors=True)
    return out


def run(tier, seed, replay=None):
    rep = Report(PID, tier, seed, 'fault_enumeration')
    if replay:
        import json
        rep.absorb(run_cases(child, [json.load(open(replay))['witness']['case']], watchdog=600))
        return rep.finish(rule='replay', min_distinct=0)
    rng = random.Random(seed * 1000003 + 14)
    cases = []
    # a database flushed only a few times (flush count 2-3) with two-entry rows: scripts end up with far more compacted rows than the
    # flush count - the configuration of the recorded finding (kill between the last batch and set_flush_count), exercised on every run
    cases.append({'dbid': 99, 'seed': rng.randrange(1 << 30), 'n0': 22, 'flushkind': 'none', 'flushvec': None, 'row_entries': 2,
                  'batch_limit': 200, 'prefetch': 100, 'mode': 'kill-before-set-flush-count'})
    ndb = 5 if tier == 'quick' else 16
    for d in range(ndb):
        fk = ('allF', 'alt', 'random', 'allH', 'HrunF')[d % 5]
        base = {'dbid': d, 'seed': rng.randrange(1 << 30), 'n0': rng.choice((14, 22, 30)), 'flushkind': fk,
                'flushvec': flushvec_of(fk, random.Random(rng.randrange(1 << 30))), 'row_entries': (3, 12, 40, 5, 2)[d % 5],
                'batch_limit': 1 if d % 4 else 200, 'prefetch': rng.choice((3, 100))}
        cases.append(dict(base, mode='complete', sample=d == 0))
        cases.append(dict(base, mode='kill-before-set-flush-count'))
        ks = range(1, 19) if tier == 'thorough' else sorted(rng.sample(range(1, 17), 5))
        for k in ks:
            for mode in ('resume', 'abandon', 'kill', 'kill-resume'):
                if tier == 'quick' and mode in ('kill', 'kill-resume') and k % 2:
                    continue
                cases.append(dict(base, mode=mode, k=k, sample=(d == 1 and k == ks[0] and mode == 'abandon')))
    rep.absorb(run_cases(child, cases, watchdog=600), 'compaction case')
    c = rep.counters
    for name, minimum in {'history_sets_compared': 80, 'follow_ups_run': 50, 'mode:complete': 5, 'mode:resume': 10, 'mode:abandon': 10,
                          'mode:kill': 5, 'mode:kill-before-set-flush-count': 5, 'compaction_process_exit_77': 5,
                          'compaction_process_exit_78': 5, 'max_rows_per_script_before': 8, 'script_hashes_sharing_a_two_byte_prefix': 50}.items():
        rep.floor(name, c[name], minimum)
    rep.exhaustive = tier == 'thorough'
    return rep.finish(
        rule='history databases built by the real block processor under five flush vectors (many flush rows per script), compacted row '
             'size set to 2/3/5/12/40 entries on the instance, one prefix (or 200 bytes) per batch; the real compact_history() coroutine '
             'of electrumx_compact_history is run to completion, stopped in-process after batch k and resumed or abandoned, or killed '
             '(os._exit) between batches / between the last history batch and set_flush_count. Oracle: get_txnums for every script '
             'hash identical before and after; then a real server is started on the database and must serve the reference histories, '
             'also after a depth-2 reorg reaching into the compacted rows, three more blocks and another depth-2 reorg on top; the resulting database is then compacted once more in one go '
             '(histories unchanged) and three further blocks are indexed and compared. The abandoned-then-index clause is skipped (and counted) when a '
             'script has more compacted rows than the flush count, as the statement allows. distinct = (database, row size, batch '
             'limit, mode, stop point)',
        assumptions=['process death between batches only (a LevelDB batch is atomic)', 'History.upgrade_db (old DB versions) not covered'])
