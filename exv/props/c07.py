'''C07 - subscribers converge on the true status and tip: no change is ever lost.'''
import random

from exv.core import Report, run_cases
from exv.scen import flushvec_of
from exv.sysscen import child, gen_script, gen_race_script, gen_lag_script, gen_unconfirm_script, gen_subscribe_race_script, gen_nobody_connected_script

PID = 'C07'


def gen_cases(tier, seed, judge=('C07',), n=None, queries=False, longpark_in_quick=True):
    rng = random.Random(seed * 1000003 + 7 + len(judge) * 31 + sum(map(ord, judge[0])))
    n = n or (100 if tier == 'quick' else 2000)
    cases = []
    for i in range(n):
        nclients = rng.randrange(2, 5)
        nscripts = rng.randrange(3, 9)
        fk = rng.choice(('none', 'none', 'random', 'alt', 'sparseF', 'allF'))
        cases.append({'seed': rng.randrange(1 << 30), 'nclients': nclients, 'nscripts': nscripts, 'judge': list(judge),
                      'script': gen_script(rng, rng.randrange(6, 14), nclients, nscripts, queries=queries or i % 3 == 0),
                      'flushkind': fk, 'flushvec': flushvec_of(fk, random.Random(rng.randrange(1 << 30))),
                      'policy': rng.choice(('random', 'random', 'lazy', 'pct')), 'p': rng.choice((0.1, 0.3, 0.6)),
                      'latency': rng.choice((None, (0, 0.1, 1), (0, 0.1, 1, 3, 6))), 'txindex': i % 2 == 0,
                      'prefetch': rng.choice((1, 2, 100)), 'n0': rng.choice((10, 14, 20)), 'sample': i < 2, 'colls': rng.choice((0, 1)),
                      'longpark': (0.25 if i % 5 == 3 else None) if tier == 'thorough' or longpark_in_quick else None})
    if 'C07' in judge or 'C10' in judge:
        # the mempool refresh lags behind the block processor (slow raw-tx fetches) while blocks touch subscribed scripts
        for j in range(32 if tier == 'quick' else 400):
            nclients, nscripts = 2, rng.randrange(4, 8)
            cases.append({'seed': rng.randrange(1 << 30), 'nclients': nclients, 'nscripts': nscripts, 'judge': list(judge),
                          'script': gen_lag_script(rng, nclients, nscripts), 'flushkind': 'none', 'flushvec': None,
                          'policy': rng.choice(('random', 'lazy', 'eager')), 'p': 0.3, 'latency': None,
                          'latency_by_method': ({'getrawtransaction': (7, 9, 14), 'getrawmempool': (0, 3)} if j % 2 else
                                                {'getrawtransaction': (7, 9, 14), 'getrawmempool': (0, 3), 'rest/block': (4, 8),
                                                 'getblockhash': (2, 5)}), 'txindex': j % 4 < 2,
                          'prefetch': 100, 'n0': rng.choice((10, 16)), 'colls': 0, 'reorg_limit': 5})
    if 'C07' in judge or 'C10' in judge:
        # a forced reorg processed while a slow refresh (started before it) is still fetching: its hand-over falls into the
        # window in which the blocks are undone but not yet re-advanced
        for j in range(12 if tier == 'quick' else 150):
            nclients, nscripts = 2, 5
            script = [('hsub', ci) for ci in range(nclients)] + [('sub', ci, si) for ci in range(nclients) for si in range(nscripts)]
            script += [('sleep', 12)]
            for _ in range(rng.randrange(1, 3)):
                script += [('w', 'add'), ('sleep', rng.choice((5.5, 6, 7, 8))), ('rpc_reorg', rng.randrange(1, 3)), ('sleep', 45)]
            cases.append({'seed': rng.randrange(1 << 30), 'nclients': nclients, 'nscripts': nscripts, 'judge': list(judge), 'script': script,
                          'flushkind': 'none', 'flushvec': None, 'policy': rng.choice(('eager', 'lazy', 'random')), 'p': 0.3, 'latency': None,
                          'latency_by_method': {'getrawtransaction': (11, 14, 17), 'getblockhash': (4, 5, 7), 'getrawmempool': (0,)},
                          'txindex': j % 2 == 0, 'prefetch': 100, 'n0': rng.choice((10, 14)), 'colls': 0, 'reorg_limit': 5})
        for j in range(12 if tier == 'quick' else 150):
            nclients, nscripts = 2, 8
            cases.append({'seed': rng.randrange(1 << 30), 'nclients': nclients, 'nscripts': nscripts, 'judge': list(judge),
                          'script': gen_unconfirm_script(rng, nclients, nscripts), 'flushkind': 'none', 'flushvec': None,
                          'policy': rng.choice(('random', 'lazy', 'eager')), 'p': 0.3, 'latency': None, 'txindex': j % 2 == 0,
                          'prefetch': 100, 'n0': rng.choice((10, 16)), 'colls': 0, 'reorg_limit': 5})
    if 'C07' in judge:
        # the daemon silently moves to a competing branch of the same height; the operator then forces a reorg: the new tip has the
        # height already notified
        for j in range(12 if tier == 'quick' else 150):
            nclients, nscripts = 2, 5
            script = [('hsub', ci) for ci in range(nclients)] + [('sub', ci, si) for ci in range(nclients) for si in range(nscripts)]
            script += [('sleep', 12)]
            for _ in range(rng.randrange(1, 3)):
                d = rng.randrange(1, 3)
                script += [('w', 'add'), ('sleep', 6), (rng.choice(('reorg_same', 'same_switch')), d), ('sleep', rng.choice((6, 12))),
                           ('rpc_reorg', rng.choice((d, d, d + 1)), 'on-stale-branch'), ('sleep', 40)]
            cases.append({'seed': rng.randrange(1 << 30), 'nclients': nclients, 'nscripts': nscripts, 'judge': list(judge), 'script': script,
                          'flushkind': 'none', 'flushvec': None, 'policy': rng.choice(('eager', 'lazy', 'random')), 'p': 0.3, 'latency': None,
                          'txindex': j % 2 == 0, 'prefetch': 100, 'n0': rng.choice((10, 14)), 'colls': 0, 'reorg_limit': 5,
                          'family': 'same-height-forced'})
    if 'C07' in judge:
        # a subscription being set up (its history read held) while a block touching the script is indexed and notified
        for j in range(24 if tier == 'quick' else 300):
            nclients, nscripts = rng.choice((1, 1, 2)), 6
            cases.append({'seed': rng.randrange(1 << 30), 'nclients': nclients, 'nscripts': nscripts, 'judge': list(judge),
                          # every other case has a single round: nothing is cached or subscribed when the block arrives
                          'script': gen_subscribe_race_script(rng, nclients, nscripts, rounds=1 if j % 2 == 0 else None),
                          'flushkind': 'none', 'flushvec': None,
                          'policy': rng.choice(('random', 'lazy', 'eager')), 'p': 0.3, 'latency': None, 'txindex': j % 2 == 0,
                          'prefetch': 100, 'n0': rng.choice((10, 14)), 'colls': 0, 'longpark': rng.choice((0.5, 0.7)), 'reorg_limit': 5,
                          'family': 'subscribe-race', 'hold_requests_only': j % 2 == 0})
    if 'C10' in judge:
        # the chain changes while no session is connected; cached answers must not survive it
        for j in range(12 if tier == 'quick' else 150):
            nclients, nscripts = rng.choice((1, 2)), 4
            cases.append({'seed': rng.randrange(1 << 30), 'nclients': nclients, 'nscripts': nscripts, 'judge': list(judge),
                          'script': gen_nobody_connected_script(rng, nclients, nscripts), 'flushkind': 'none', 'flushvec': None,
                          'policy': rng.choice(('random', 'lazy', 'eager')), 'p': 0.3, 'latency': None, 'txindex': j % 2 == 0,
                          'prefetch': 100, 'n0': rng.choice((10, 14)), 'colls': 0, 'longpark': None, 'reorg_limit': 5, 'family': 'nobody-connected'})
    if 'C10' in judge or 'C11' in judge:
        # reads in flight while blocks are undone: queries right before a chain change, read jobs held at their end
        for j in range(24 if tier == 'quick' else 300):
            nclients, nscripts = 2, 5
            cases.append({'seed': rng.randrange(1 << 30), 'nclients': nclients, 'nscripts': nscripts, 'judge': list(judge),
                          'script': gen_race_script(rng, rng.randrange(3, 6), nclients, nscripts), 'flushkind': 'none', 'flushvec': None,
                          'policy': rng.choice(('random', 'lazy')), 'p': 0.3, 'latency': None, 'txindex': j % 2 == 0, 'prefetch': 100,
                          'n0': rng.choice((12, 20)), 'colls': 0, 'longpark': rng.choice((0.5, 0.8)), 'reorg_limit': 5,
                          'query_at_backup': j % 3 == 0})
    return cases


def run(tier, seed, replay=None):
    rep = Report(PID, tier, seed, 'exploration')
    if replay:
        import json
        rep.absorb(run_cases(child, [json.load(open(replay))['witness']['case']], watchdog=900))
        return rep.finish(rule='replay', min_distinct=0)
    rep.absorb(run_cases(child, gen_cases(tier, seed), watchdog=900), 'scenario')
    c = rep.counters
    for name, minimum in {'quiescent_points_judged': 80, 'held_statuses_judged': 400, 'held_tips_judged': 150, 'header_notifications_seen': 300,
                          'notifications_issued': 500, 'step:reorg': 20, 'step:reorg_same_height': 10, 'step:forced_reorg': 15,
                          'client:unsubscribe': 20, 'c20_joins_on_real_traces': 300, 'notifications_issued_while_index_below_their_height': 3, 'family:subscribe-race': 12, 'family:same-height-forced': 6,
                          'children_paying_a_script_their_parent_does_not_touch': 10, 'notif_handovers_checked_against_env_model': 1000}.items():
        rep.floor(name, c[name], minimum)
    if c['notif_handover_outside_env_model']:
        rep.inconc(f'{c["notif_handover_outside_env_model"]} real hand-over(s) fall outside the environment model used by C20 (model too narrow)')
    return rep.finish(
        rule='full server + 2-4 real ElectrumX sessions subscribed to 2-6 of 3-8 hot script hashes and to headers; world script of 6-13 '
             'events (mempool arrivals/chains/evictions, blocks confirming all/none/some/parents, natural reorgs, same-height forks, '
             'forced reorgs through the admin RPC) interleaved with subscribe/unsubscribe, cache-populating queries and sleeps of '
             '0-12 virtual seconds; daemon latency up to 6 s per call; forced intermediate flushes; random/lazy/PCT job interleaving. At '
             'quiescence (static daemon, index at its tip, a mempool refresh that began and ended at that state handed over, 16 s for '
             'delivery, no request pending) the last status each client holds for every script hash it is still subscribed to must be '
             'an admissible protocol status of the current chain+mempool and its last header notification the current tip; at the '
             'client boundary every header notification is checked against the index height and header file at the instant it is '
             'written; the C20 monitor runs on the real hand-over trace. distinct = (script, schedule hash)',
        assumptions=['mempool order inside a status is free: any permutation accepted (k<=6, else not judged)',
                     'a subscription the server dropped (history too large) is not judged',
                     'quiescence is established by state, never by elapsed wall time'])
