'''C01 - confirmed UTXO set and balances equal the chain's true unspent outputs.
C02 shares the executions (exv.props.c02 calls run_index with pid="C02").'''
import random

from exv.core import Report, run_cases
from exv.scen import index_child, flushvec_of, FLUSH_KINDS

PID = 'C01'


def gen_cases(pid, tier, seed):
    rng = random.Random(seed * 1000003 + (1 if pid == 'C01' else 2))
    n = 150 if tier == 'quick' else 1500
    cases = []
    for i in range(n):
        fk = FLUSH_KINDS[i % len(FLUSH_KINDS)]
        n0 = rng.choice((8, 14, 20, 30, 45, 60)) if tier == 'quick' else rng.choice((8, 14, 20, 30, 45, 60, 120, 300))
        big = None
        if tier == 'thorough' and i % 25 == 0:
            big = rng.choice((200, 450, 700))
            n0 = min(n0, 30)
        if n0 >= 120:
            n0 = n0 if i % 10 == 0 else 40
        crng = random.Random(rng.randrange(1 << 30))
        case = {
            'pid': pid, 'seed': rng.randrange(1 << 30), 'shape': f'n{n0}' + ('+big' if big else ''),
            'n0': n0, 'big': big, 'colls': rng.choice((1, 2, 3)),
            'prefetch': rng.choice((1, 2, 3, 8, 100)), 'reorg_limit': rng.choice((1, 3, 200)),
            'flushkind': fk, 'flushvec': flushvec_of(fk, crng),
            'policy': rng.choice(('random', 'random', 'lazy', 'eager', 'pct')), 'p': rng.choice((0.1, 0.3, 0.6)),
            'grow': {rng.randrange(3, 12): rng.randrange(1, 6)} if rng.random() < 0.5 else None,
            'events': ([{'k': 'mine', 'n': rng.randrange(1, 4)} for _ in range(rng.randrange(1, 3))]
                       if rng.random() < 0.7 else []),
            'sample': i < 2, 'small_files': i % 3 == 0,
        }
        if i % 5 == 4:
            # the same observables re-read after blocks were replaced (anything memoised across a reorg shows up here)
            case['reorg_limit'] = 3
            case['events'] = case['events'] + [{'k': 'fork', 'depth': rng.randrange(1, 4), 'ext': 1}]
        cases.append(case)
    return cases


def run_index(pid, tier, seed, rule_extra, floors):
    rep = Report(pid, tier, seed, 'exploration')
    cases = gen_cases(pid, tier, seed)
    rep.absorb(run_cases(index_child, cases, watchdog=240 if tier == 'quick' else 900), 'scenario')
    c = rep.counters
    for name, minimum in floors.items():
        rep.floor(name, c[name], minimum)
    return rep.finish(
        rule='generated valid chains (same-block spend chains, fan-in/out, zero-value and duplicate-script outputs, OP_RETURN / '
             'OP_FALSE OP_RETURN on both sides of activation height 6, pre-ground 2/3/4-way 4-byte-prefix colliding coinbases) x '
             'flush vectors (none/every block full/every block history-only/alternating/H-run-then-F/sparse/random) x prefetch '
             '{1,2,3,8,100} x REORG_LIMIT {1,3,200} x daemon growing during sync x job interleaving policy; the real server '
             'indexes them and every observable is read through the public read path (plus a raw u/h/history table scan and a '
             'real client session) and diffed against an independent reference model. ' + rule_extra +
             ' distinct = (chain shape, flush kind, prefetch, reorg limit, event word) tuples',
        assumptions=['LevelDB/plyvel batch atomicity and iterator order', 'no duplicate txids (BIP34-style coinbases)',
                     'chains bounded as stated; production constants (25 MB chunks, 12 500-entry rows) not reached'])


def run(tier, seed, replay=None):
    return run_index('C01', tier, seed,
                     'C01 judges: per-script UTXO multiset (outpoint,value,height), balance, utxo_count, tx_count, chain_size, '
                     'tip, lookup_utxos for live/spent/absent outpoints, raw u/h rows.',
                     {'index_comparisons': 100, 'collisions_resolved_from_db': 5, 'collision_member_spent_from_cache': 3,
                      'spends_from_db': 200, 'spends_from_cache': 200, 'history_only_flushes': 20, 'full_flushes': 50,
                      'feat_opret_pre': 10, 'feat_opret_post': 10, 'feat_opfalse_pre': 10, 'feat_opfalse_post': 10,
                      'feat_same_block_chain>=3': 10, 'feat_zero_value': 10, 'session_queries': 100})
