'''C15 - exactly the configured window of recent blocks can be undone.'''
import random

from exv.core import Report, run_cases
from exv.crash import crash_child
from exv.scen import index_child, flushvec_of, FLUSH_KINDS

PID = 'C15'


def gen_cases(tier, seed):
    rng = random.Random(seed * 1000003 + 15)
    n = 144 if tier == 'quick' else 1800
    cases = []
    for i in range(n):
        limit = (1, 2, 3, 5, 50)[i % 5]
        n0 = rng.choice((limit + 3, 2 * limit + 2, 12, 25)) if limit < 50 else rng.choice((8, 14))
        how = ('initial-sync', 'caught-up', 'before-restart', 'restart-mid-sync', 'daemon-jumps')[(i // 5) % 5]
        which = ('limit', 'limit-1', 'limit+1')[(i // 25) % 3]
        forced = rng.random() < 0.4
        eff = min(limit, n0 // 2)
        depth = {'limit': eff, 'limit-1': max(0 if forced else 1, eff - 1), 'limit+1': eff + 1}[which]
        events = []
        case = {'pid': PID, 'seed': rng.randrange(1 << 30), 'shape': f'{how}/{which}/{"forced" if forced else "natural"}',
                'n0': n0, 'colls': rng.choice((0, 1)), 'prefetch': rng.choice((1, 2, 3, 8, 100)), 'reorg_limit': limit,
                'check_undo': True, 'sig_schedule': False, 'session': False,
                'policy': rng.choice(('random', 'lazy', 'eager')), 'p': 0.3}
        fk = rng.choice(FLUSH_KINDS)
        case['flushkind'] = fk
        case['flushvec'] = flushvec_of(fk, random.Random(rng.randrange(1 << 30)))
        if how == 'caught-up':
            events += [{'k': 'mine', 'n': 1, 'rich': False} for _ in range(rng.randrange(eff, eff + 3))]
        elif how == 'before-restart':
            if rng.random() < 0.5:
                events += [{'k': 'mine', 'n': rng.randrange(1, 4)}]
            events += [{'k': 'restart'}]
        elif how == 'restart-mid-sync':
            case['restart_at_heights'] = sorted(rng.sample(range(1, n0), min(n0 - 1, rng.randrange(1, 3))))
        elif how == 'daemon-jumps':
            case['grow'] = {rng.randrange(2, 10): rng.randrange(1, 8), rng.randrange(10, 25): rng.randrange(1, 4)}
        over = which == 'limit+1'
        if forced:
            events.append({'k': 'reorg', 'n': depth, 'force': over})
        else:
            events.append({'k': 'fork', 'depth': depth, 'ext': 1, 'force': over})
        events.append({'k': 'restart'}) if rng.random() < 0.3 and not over else None
        if events[-1]['k'] == 'restart':
            events.append({'k': 'mine', 'n': 1})
        case['events'] = events
        case['sample'] = i in (0, 7)
        cases.append(case)
    return cases


def run(tier, seed, replay=None):
    rep = Report(PID, tier, seed, 'exploration')
    if replay:
        import json
        rep.absorb(run_cases(index_child, [json.load(open(replay))['witness']['case']], watchdog=600))
    else:
        rep.absorb(run_cases(index_child, gen_cases(tier, seed), watchdog=300 if tier == 'quick' else 900), 'history')
        # unclean restarts: the process is killed around the UTXO-batch commits / state puts of forward flushes; after restart and
        # catch-up the undo window must be complete and a reorg of depth `limit` must succeed
        from exv.props.c04 import crash_cases
        rng = random.Random(seed * 7 + 1)
        scs = []
        for i in range(6 if tier == 'quick' else 30):
            fk = ('allF', 'alt', 'random', 'sparseF', 'HrunF', 'none')[i % 6]
            limit = (2, 3, 5)[i % 3]
            scs.append({'sid': f'c15crash{seed}-{i}', 'wseed': rng.randrange(1 << 30), 'n0': rng.choice((8, 12)), 'colls': 0,
                        'prefetch': rng.choice((2, 100)), 'reorg_limit': limit, 'flushkind': fk,
                        'flushvec': flushvec_of(fk, random.Random(rng.randrange(1 << 30))), 'mode': 'forward', 'more': rng.randrange(1, 3),
                        'a0': rng.choice((None, 5)), 'check_undo': True, 'probe_reorg': True,
                        'only_labels': ('D:utxo:commit', 'D:utxo:put')})
        rep.absorb(run_cases(crash_child, crash_cases(rep, 'thorough', seed, scs, 'forward'), watchdog=600), 'crash-restart case')
        c = rep.counters
        for name, minimum in {'undo_windows_checked': 150, 'opens_checked': 150, 'opens_that_pruned_undo': 5,
                              'ev_restart': 20, 'ev_restart_during_sync': 10, 'reorg_ranges': 60,
                              'ev_fork_beyond_window': 5, 'ev_forced_reorg_beyond_window': 3,
                              'beyond_window_outcome_chainerror': 3, 'probe_reorgs_after_crash_restart': 25}.items():
            rep.floor(name, c[name], minimum)
    return rep.finish(
        rule='REORG_LIMIT in {1,2,3,5,50>chain} x how the window blocks were indexed (initial sync / one at a time while caught '
             'up / before a restart / across a restart in the middle of initial sync / with the daemon height jumping during '
             'sync) x probe reorg of depth limit, limit-1 (must succeed and match the reference model) and limit+1 (outcome '
             'only recorded: success or ChainError), natural or forced. Monitors: after every database open no undo key below '
             'height-limit+1 remains; at every observed catch-up an undo key exists for every height of the window; index '
             'observables equal the reference model. Unclean restarts: forward scenarios are killed before/after every UTXO batch '
             'commit and state put; after restart and catch-up the undo window must be complete and a depth-limit reorg must succeed. distinct = (how/which/kind, flush kind, prefetch, limit, event word)',
        min_distinct=1 if replay else 2,
        assumptions=['daemon heights are monotone in these histories (a daemon that moves to a shorter chain is covered by C03)'])
