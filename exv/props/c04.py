'''C04 - a crash at any point while indexing forward loses nothing that was committed.'''
import random

from exv.core import Report, run_cases
from exv.crash import dry_child, crash_child
from exv.scen import flushvec_of

PID = 'C04'
TORN = (1, -1, 0.5)


def scenarios(tier, seed, mode='forward'):
    rng = random.Random(seed * 1000003 + 4)
    n = 8 if tier == 'quick' else 40
    out = []
    for i in range(n):
        fk = ('random', 'alt', 'HrunF', 'allF', 'sparseF', 'allH')[i % 6]
        crng = random.Random(rng.randrange(1 << 30))
        limit = rng.choice((2, 3, 5))
        sc = {'sid': f's{seed}-{i}', 'wseed': rng.randrange(1 << 30), 'n0': rng.choice((10, 14, 18, 24)), 'colls': rng.choice((0, 1)),
              'prefetch': rng.choice((2, 3, 8, 100)), 'reorg_limit': limit, 'flushkind': fk, 'flushvec': flushvec_of(fk, crng),
              'mode': 'forward', 'small_files': i % 2 == 0, 'a0': rng.choice((None, 5, 8))}
        if i % 2 == 1:
            sc['fork'] = {'depth': rng.randrange(1, limit + 1), 'ext': 1, 'b_more': rng.randrange(1, 4)}
        else:
            sc['more'] = rng.randrange(2, 5)
        out.append(sc)
    # one scenario whose flush spends tens of thousands of on-disk outputs at once (batch-size thresholds)
    big = {'sid': f's{seed}-bigspend', 'wseed': rng.randrange(1 << 30), 'n0': 4, 'colls': 0, 'prefetch': 100, 'reorg_limit': 3,
           'flushkind': 'allF', 'flushvec': [True], 'mode': 'forward', 'small_files': False, 'more': 1,
           'big_spend': 52000 if tier == 'thorough' else 50500, 'only_labels': ('D:utxo:commit', 'D:utxo:put', 'D:hist:commit') if tier == 'thorough' else ('D:utxo:commit',),
           'watchdog': 400}
    out.append(big)
    # one scenario whose flushes (history-only and full) touch more than ten thousand distinct script hashes at once
    wide = {'sid': f's{seed}-widepayout', 'wseed': rng.randrange(1 << 30), 'n0': 5, 'colls': 0, 'prefetch': rng.choice((1, 100)), 'reorg_limit': 3,
            'flushkind': 'alt', 'flushvec': rng.choice(([False, True], [True])), 'mode': 'forward', 'small_files': False, 'more': 2,
            'wide_payout': rng.choice((10500, 12000, 20500)), 'only_labels': ('D:utxo:commit', 'D:hist:commit'), 'watchdog': 400}
    out.append(wide)
    return out


def select_events(events, tier, rng, want_phase, only_labels=None):
    '''Which durable events to cut at.  quick: every batch commit / direct put + a stratified sample of file writes;
    thorough: every event.  File writes additionally get torn prefixes.'''
    cuts = []
    by_label = {}
    for e in events:
        if (e['phase'] == 'backup') != (want_phase == 'backup'):
            continue
        if only_labels and e['label'] not in only_labels:
            continue
        by_label.setdefault(e['label'], []).append(e)
    for label, evs in by_label.items():
        if tier == 'thorough' or ':commit' in label or label.endswith(':put'):
            chosen = evs
        else:
            k = 6 if ':file:' in label else 3
            chosen = rng.sample(evs, min(len(evs), k))
        for e in chosen:
            cuts.append((e['n'], None, label))
            if ':file:' in label:
                torns = TORN if tier == 'thorough' else (rng.choice(TORN),)
                for t in torns:
                    cuts.append((e['n'], t, label))
    return cuts


def crash_cases(rep, tier, seed, scen_list, want_phase):
    '''Dry-run the scenarios, enumerate/select durable events, return the crash cases (longest first).'''
    rng = random.Random(seed)
    dry = run_cases(dry_child, scen_list, watchdog=600)
    cases = []
    for sc, r in zip(scen_list, dry):
        if r.status != 'ok':
            rep.inconc(f'dry run {sc["sid"]}: {r.status} {str(r.value)[-300:]}')
            continue
        v = r.value
        rep.count('dry_runs')
        rep.count('durable_events_in_dry_runs', len(v['events']))
        if v['exc'] or v['diffs']:
            # the uninterrupted run itself disagrees with the oracle: that is C01-C03 territory, but no crash verdict
            # can be trusted on such a scenario
            rep.violation('dry-run/uninterrupted-run-differs', f'uninterrupted run of {sc["sid"]}: exc={v["exc"] and v["exc"][-300:]} diffs={v["diffs"][:2]}',
                          {'case': sc})
            continue
        for k, n in v['mon'].items():
            rep.count('dry_' + k, n)
        for (n, torn, label) in select_events(v['events'], tier, rng, want_phase, sc.get('only_labels')):
            c = dict(sc)
            c.update({'crash_at': n, 'torn': torn, 'sample': len(cases) % 97 == 0})
            cases.append(c)
    cases.sort(key=lambda c: -int(c.get('big_spend') or c.get('wide_payout') or 0))     # longest first
    return cases


def run_crash_property(pid, tier, seed, scen_list, want_phase, rule, floors, replay=None, level='fault_enumeration', assumptions=()):
    rep = Report(pid, tier, seed, level)
    if replay:
        import json
        case = json.load(open(replay))['witness']['case']
        rep.absorb(run_cases(crash_child, [case], watchdog=600))
        return rep.finish(rule=rule, min_distinct=0, assumptions=assumptions)
    cases = crash_cases(rep, tier, seed, scen_list, want_phase)
    rep.absorb(run_cases(crash_child, cases, watchdog=600), 'crash case')
    c = rep.counters
    for name, minimum in floors.items():
        rep.floor(name, c[name], minimum)
    rep.exhaustive = tier == 'thorough'
    return rep.finish(rule=rule, assumptions=assumptions)


ASSUME = ['fault model: the process dies (os._exit), the OS and page cache survive; power loss is out of reach',
          'a LevelDB write batch is cut before or after its commit, never inside (batch atomicity trusted)',
          'eager (sequential) job scheduling during crash runs; the interleaving dimension is explored by C06/C01-C03']


def run(tier, seed, replay=None):
    floors = {'crash_runs_died': 150, 'reopen_comparisons': 120, 'resume_comparisons': 120,
              'cut@D:utxo:commit': 20, 'cut@D:hist:commit': 20, 'cut@D:utxo:put': 10,
              'cut@D:file:headers:write': 5, 'cut@D:file:txcounts:write': 5, 'cut@D:file:hashes:write': 5,
              'cut@D:file:headers:write/torn': 3, 'cut@D:file:txcounts:write/torn': 3, 'cut@D:file:hashes:write/torn': 3,
              'cut@D:blockfile:write': 3, 'dry_history_only_flushes': 5, 'dry_full_flushes': 10}
    return run_crash_property(
        PID, tier, seed, scenarios(tier, seed), 'forward',
        rule='scenarios of 10-24 blocks with mixed history-only/full flush vectors, daemon growing during sync, half of them with a '
             'reorg and re-advance (metadata files hold stale data beyond the state height), half with metadata files shrunk so '
             'writes cross file boundaries, plus one scenario whose flush spends > 50 000 on-disk outputs at once and one whose '
             'flushes touch 10 500-20 500 distinct script hashes (a payout transaction); a dry run counts the durable events (each LogicalFile write, each batch commit, each '
             'direct put, each block-file write); quick cuts before every commit/put and a stratified sample of file writes '
             '(+ one torn prefix), thorough before every event with torn prefixes {1 byte, len-1, half}. After the cut: '
             'open_for_sync must succeed, report the height of the last UTXO batch whose commit preceded the cut, equal a clean '
             'index of that chain prefix (all observables + raw rows), and a resumed sync must equal the reference model of the '
             'final chain. distinct = (scenario, event label, ordinal, torn class)',
        floors=floors, replay=replay, assumptions=ASSUME)
