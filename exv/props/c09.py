'''C09 - the mempool tracker survives every daemon race with its index intact.'''
import logging
import random

from exv import harness, vloop
from exv.core import Report, run_cases
from exv.mpscen import MempoolEngine

PID = 'C09'
EVENTS = ('mine_all', 'mine_parents', 'mine_none', 'reorg', 'evict', 'add', 'mine2', 'mine_some')
JOBS = ('deserialize_txs', 'lookup_hashXs', 'lookup_utxos')


def child(case):
    eng = MempoolEngine(case)
    loop = None
    st = {'dbsync': 0}

    def install_extra():
        from electrumx.server import mempool as mpmod
        if not hasattr(mpmod.MemPool, '_exv_pm'):
            mpmod.MemPool._exv_pm = mpmod.MemPool._process_mempool
        orig = mpmod.MemPool._exv_pm

        async def _process_mempool(self_, all_hashes, touched, height):
            try:
                return await orig(self_, all_hashes, touched, height)
            except mpmod.DBSyncError:
                st['dbsync'] += 1
                raise
        mpmod.MemPool._process_mempool = _process_mempool

    async def run(loop_, dbdir):
        install_extra()
        if not await eng.bring_up(loop_, dbdir):
            eng.inconclusive.append('server did not come up')
            return
        job_place = {}

        def on_submit(job):
            nm = job.name.split('.')[-1]
            fn = job_place.pop((eng.refreshes, nm), None)
            if fn:
                fn()
                eng.bump('placed_events_fired')
                eng.bump(f'placed_at:job:{nm}')
        lp = case.get('longpark_lookup')

        def on_submit_lp(job):
            on_submit(job)
            nm = job.name.split('.')[-1]
            if lp and st.get('attacking') and nm in case.get('hold_only', ('lookup_hashXs', 'lookup_utxos', 'deserialize_txs')) and eng.rng.random() < lp:
                # the prevout lookup is held back while the block processor goes on indexing
                job.longpark = 'job-end' if nm == 'deserialize_txs' else 'start'
                job.park_secs = eng.rng.choice(case.get('hold_secs', (6, 11)))
                eng.bump('lookup_jobs_held_back')
                if nm == 'lookup_utxos':
                    eng.bump('second_lookup_pass_held_back')
        loop_.gex.on_submit = on_submit_lp
        # a pool with parents, children and grandchildren
        eng.step('add')
        eng.step('add_chain' if case.get('chain') else 'add')
        if not await eng.wait_synchronised():
            eng.inconclusive.append('no synchronised refresh after start')
            return
        await eng.compare_view('start')
        st['attacking'] = True
        for i, (where, ev) in enumerate(case['attacks']):
            # new arrivals so that the next refresh has something to fetch and look up
            eng.step('add')
            if i % 2:
                eng.step('add')
            r = eng.refreshes + 1
            if ev == 'same_height_switch':
                def fn():
                    # the daemon moves to an equal-height branch and gets txs spending outputs that exist only there; the
                    # index cannot follow until the admin forces a reorg (below)
                    w = eng.world
                    d = eng.rng.randrange(1, 3)
                    if w.height() >= 2 * d + 2:
                        # a colliding coinbase for the new branch whose sibling (same 4-byte hash prefix) the index still holds unspent
                        base_u = w.utxos(w.tip.ancestor(w.height() - d))
                        prefixes = {(o[0][:4], o[1]) for o in base_u}
                        has_sib = lambda t: any((t.hash[:4], i) in prefixes for i in range(len(t.outs)))
                        sib = [t for t in w.reserved_cb if has_sib(t)] or [t for t in w.pending_cb if has_sib(t)]
                        if sib:
                            for lst in (w.reserved_cb, w.pending_cb):
                                if sib[0] in lst:
                                    lst.remove(sib[0])
                            w.pending_cb.append(sib[0])          # make_block pops from the end
                            w.protected.add(sib[0].hash)          # the new branch's own random txs leave its outputs alone
                            w.coll_prob = 1.0
                        tip = w.fork(d, d, rng=eng.rng, ntx=3)
                        w.coll_prob = 0.5
                        w.switch_to(tip)
                        new_blocks = tip.chain()[tip.height - d + 1:]
                        # spend outputs that exist only on the new branch - first of all those of coinbases whose hash shares
                        # its 4-byte prefix with a coinbase the lagging index still holds unspent
                        coll = [(b.txs[0].hash, i) for b in new_blocks if b.txs[0].hash in w.coll_hashes for i in range(len(b.txs[0].outs))]
                        other = [(t.hash, i) for b in new_blocks for t in b.txs[1:] for i in range(len(t.outs))]
                        sibs = {(o[0][:4], o[1]) for o in base_u}
                        exact = [o for o in coll if (o[0][:4], o[1]) in sibs]
                        if exact:
                            # same prefix and same output index as an output the index holds: a sole wrong candidate
                            coll = exact
                            eng.bump('same_height_switch_spending_colliding_outputs')
                        for k_ in range(3):
                            w.mempool_add(parent='confirmed', n_in=1, prefer=(coll if k_ < 2 and coll else other))
                        eng.bump('placed:same_height_switch')
                        eng.event_log.append('same_height_switch')
            else:
                fn = (lambda ev=ev: (eng.step(ev), eng.bump(f'placed:{ev}')))
            if isinstance(where, int):
                eng.placements[(r, where)] = fn
            else:
                job_place[(r, where)] = fn
            # let that refresh (and the reaction to the event) happen, without demanding synchronisation
            await eng.srv.wait_until(lambda: eng.refreshes >= r + 1, 120)
            if eng.srv.check_task():
                return
            # un-fired placements are dropped (the refresh had fewer suspension points)
            eng.placements.clear()
            job_place.clear()
            if eng.world.tip.hash != eng.srv.bp.state.tip and eng.world.height() <= eng.srv.bp.state.height:
                # equal-height branch: let two refreshes see the lagging index, then the admin forces the reorg
                await eng.srv.wait_until(lambda: eng.refreshes >= r + 3, 60)
                rpc = eng.srv.client(rpc=True)
                await rpc.call('reorg', [3], vtimeout=60)
                await rpc.close()
                eng.bump('forced_reorgs_after_same_height_switch')
            if i % 2 == 1 or i == len(case['attacks']) - 1 or ev == 'same_height_switch':
                if not await eng.wait_synchronised(600):
                    if eng.srv.check_task():
                        return
                    eng.inconclusive.append(f'no quiet synchronised refresh after attack {i}:{where}:{ev}')
                    return
                await eng.compare_view(f'after-attack{i}:{where}:{ev}')
                eng.bump('quiet_refresh_after_attack_compared')
        await eng.srv.stop()
        eng.srv.close_db()
    try:
        _r, loop = harness.run_scenario(run, seed=case['seed'], policy=case.get('policy', 'random'), p=case.get('p', 0.3),
                                        max_vtime=20000, max_jobs=120000, max_iter=3_000_000)
    except (vloop.Budget, vloop.Quiescent) as e:
        eng.inconclusive.append(f'{type(e).__name__}: {e}')
    out = eng.finish(loop)
    out['counters']['dbsyncerror_path'] = st['dbsync']
    root = logging.getLogger()
    for h in root.handlers:
        if isinstance(h, harness.MemLog):
            out['counters']['txs_dropped_path'] = sum(1 for r in h.records if 'txs dropped' in r[2])
            bad = [r for r in h.records if r[3] and 'mempool' in r[1].lower()]
            if bad:
                out['violations'].append({'key': 'mempool/logged-exception', 'what': f'mempool logged an exception: {bad[0][2]}',
                                          'witness': {'case': case, 'traceback': bad[0][3]}})
    if case.get('sample'):
        out['sample'] = {'attacks': case['attacks'], 'txindex': case.get('txindex'), 'events': eng.event_log}
    return out


def gen_cases(tier, seed):
    rng = random.Random(seed * 1000003 + 9)
    cases = []
    wheres = list(range(0, 6)) + list(JOBS)
    if tier == 'thorough':
        # enumerate (placement, event type) x txindex for a small pool, plus random ones
        for w in list(range(0, 9)) + list(JOBS):
            for ev in EVENTS:
                for txindex in (False, True):
                    for pol in ('random', 'lazy'):
                        cases.append({'seed': rng.randrange(1 << 30), 'attacks': [(w, ev), (rng.choice(wheres), rng.choice(EVENTS))],
                                      'txindex': txindex, 'policy': pol, 'p': 0.3, 'latency': (0, 0, 0.1, 1, 3), 'chain': rng.random() < 0.5})
    # parent confirmed between listing and fetching, child still listed: the "txs dropped" path (txindex off)
    for k in (1, 2, 1, 2, 3, 1, 2, 3):
        cases.append({'seed': rng.randrange(1 << 30), 'attacks': [(k, 'mine_parents'), (k, 'mine_parents')], 'txindex': False,
                      'policy': 'random', 'p': 0.3, 'latency': None, 'chain': True, 'prefetch': 100})
    for k in range(12 if tier == 'quick' else 80):
        # a block confirming listed txs arrives when the second pass of the prevout lookup is submitted, and that pass is held until
        # the index has flushed the block: prevouts the first pass resolved are gone in the second
        cases.append({'seed': rng.randrange(1 << 30), 'attacks': [('lookup_utxos', rng.choice(('mine_all', 'mine_some', 'mine_parents'))),
                                                                    ('lookup_utxos', rng.choice(('mine_all', 'mine_some')))],
                      'txindex': k % 2 == 0, 'policy': rng.choice(('random', 'lazy')), 'p': 0.3, 'latency': None, 'chain': k % 3 == 0, 'prefetch': 100,
                      'longpark_lookup': 1.0, 'hold_only': ('lookup_utxos',), 'hold_secs': (8, 11, 14), 'reorg_limit': 8, 'colls': 0})
    for k in range(12 if tier == 'quick' else 80):
        # index advancing between the raw fetch and the prevout lookup of one refresh; same-height branch switches
        cases.append({'seed': rng.randrange(1 << 30), 'attacks': [(rng.choice((1, 2, 'deserialize_txs')), rng.choice(('mine_all', 'mine_some', 'mine_parents'))),
                                                                    (rng.choice((0, 1, 2)), 'same_height_switch'),
                                                                    (rng.choice((1, 2, 'deserialize_txs')), 'mine_some')],
                      'txindex': k % 2 == 0, 'policy': 'random', 'p': 0.3, 'latency': None, 'chain': k % 3 == 0, 'prefetch': 100,
                      'longpark_lookup': 0.7, 'reorg_limit': 8, 'colls': 5, 'coll_kind': 'diff'})
    n = 112 if tier == 'quick' else 800
    for i in range(n):
        attacks = [(wheres[(i + j) % len(wheres)], EVENTS[(i // 3 + j * 3) % len(EVENTS)]) for j in range(rng.randrange(2, 5))]
        cases.append({'seed': rng.randrange(1 << 30), 'attacks': attacks, 'txindex': i % 2 == 0, 'colls': rng.choice((0, 1)),
                      'policy': rng.choice(('random', 'random', 'lazy', 'pct')), 'p': rng.choice((0.1, 0.3, 0.6)),
                      'latency': rng.choice(((0, 0, 0.1, 1, 3, 6), (0, 0.1), None)), 'chain': i % 3 == 0, 'sample': i < 2,
                      'prefetch': rng.choice((1, 2, 100))})
    return cases


def run(tier, seed, replay=None):
    rep = Report(PID, tier, seed, 'exploration')
    if replay:
        import json
        rep.absorb(run_cases(child, [json.load(open(replay))['witness']['case']], watchdog=600))
        return rep.finish(rule='replay', min_distinct=0)
    rep.absorb(run_cases(child, gen_cases(tier, seed), watchdog=600), 'attack sequence')
    c = rep.counters
    floors = {'placed_events_fired': 150, 'quiet_refresh_after_attack_compared': 100, 'invariant_evaluations': 20000,
              'dbsyncerror_path': 20, 'txs_dropped_path': 1, 'placed_at:getrawmempool': 5, 'placed_at:getblockcount': 5,
              'placed_at:getrawtransaction': 10, 'placed_at:job:lookup_hashXs': 3, 'placed_at:job:lookup_utxos': 3,
              'placed_at:job:deserialize_txs': 3}
    for ev in EVENTS:
        floors[f'placed:{ev}'] = 5
    floors['placed:same_height_switch'] = 5
    floors['second_lookup_pass_held_back'] = 10
    floors['lookup_jobs_held_back'] = 20
    floors['same_height_switch_spending_colliding_outputs'] = 6
    for name, minimum in floors.items():
        rep.floor(name, c[name], minimum)
    return rep.finish(
        rule='attack sequences against a pool with parents/children/grandchildren: before each attacked refresh new txs arrive, then a '
             'daemon state change (block confirming all / only parents / nothing / a subset, two blocks, reorg, eviction, arrival) is '
             'applied exactly at a chosen suspension point of that refresh - before answering the k-th daemon call (listing, height '
             'check, raw-tx batches) or when the deserialise / prevout-lookup jobs are submitted - under random daemon latency and '
             'random job interleaving with the block processor; txindex on/off; a dozen sequences hold the prevout-lookup jobs back for 6-11 '
             'virtual seconds (the index advances between raw fetch and lookup) and switch the daemon to an equal-height branch with '
             'new-branch-only spends before an admin-forced reorg. Monitors: at every loop iteration the pool and its '
             'by-script-hash index are exact inverses and every accepted tx has the true input pairs, output pairs and fee (ground '
             'truth from construction); no server task dies; no exception is logged by the mempool; after the attacks the next quiet '
             'refresh satisfies the exact comparison of C08. thorough enumerates (placement x event type x txindex x policy). '
             'distinct = (event log, txindex, schedule hash)',
        assumptions=['suspension points of a refresh = daemon calls and worker-job submissions; finer points are reached only through '
                     'random job interleaving'])
