'''C13 - transactions and blocks are parsed exactly, however the block file is chunked.

Real code driven: electrumx.lib.tx.Deserializer / Tx.serialize and
electrumx.server.block_processor.OnDiskBlock.iter_txs / iter_txs_reversed on real files.
Oracle: construction data of the generator's own serializer (exv.chainsim).'''
import os
import random
import shutil
import struct

from exv.core import Report, run_cases, digest, scratch_dir
from exv.chainsim import Tx, Block, dsha, ZERO32, MINUS1, varint

PID = 'C13'
DOC_EXC = None   # filled in child (needs struct.error)


def gen_tx(rng, shape):
    n_in, n_out, slen_in, slen_out = shape
    ins = []
    for i in range(n_in):
        ph = rng.randbytes(32) if rng.random() < 0.9 else ZERO32
        pi = rng.choice((0, 1, 0xfffffffe, MINUS1, rng.randrange(1 << 32)))
        sl = slen_in if i == 0 else rng.choice((0, 1, 3))
        ins.append((ph, pi, rng.randbytes(sl), rng.choice((0, MINUS1, 0xfffffffe, 1))))
    outs = []
    for i in range(n_out):
        sl = slen_out if i == 0 else rng.choice((0, 1, 25))
        # negative values = wire values >= 2^63
        outs.append((rng.choice((0, 1, 2 ** 63 - 1, 21 * 10 ** 14, rng.randrange(1 << 40), -1, -2 ** 63)), rng.randbytes(sl)))
    return Tx(ins, outs, version=rng.choice((1, 2, -1, 2 ** 31 - 1, -2 ** 31)),
              locktime=rng.choice((0, 1, MINUS1, 499999999, 500000000)))


def tx_shapes(thorough):
    counts = [1, 2, 252, 253, 254]
    lens = [0, 1, 75, 76, 252, 253, 254, 255, 256, 65535, 65536]
    shapes = []
    for n_in in counts:
        for n_out in counts:
            shapes.append((n_in, n_out, 1, 1))
    for sl in lens:
        shapes.append((1, 1, sl, 0))
        shapes.append((1, 1, 0, sl))
        shapes.append((2, 3, sl, sl))
    if thorough:
        shapes += [(65536, 1, 0, 0), (1, 65536, 0, 0), (300, 300, 2, 2)]
    return shapes


def fields(tx):
    '''Plain-data view of an electrumx Tx namedtuple.'''
    return (tx.version,
            [(bytes(i.prev_hash), i.prev_idx, bytes(i.script), i.sequence) for i in tx.inputs],
            [(o.value, bytes(o.pk_script)) for o in tx.outputs],
            tx.locktime)


def ours(t):
    return (t.version, [tuple(i) for i in t.ins], [tuple(o) for o in t.outs], t.locktime)


def child_roundtrip(case):
    from electrumx.lib.tx import Deserializer
    rng = random.Random(case['seed'])
    allowed = (AssertionError, IndexError, struct.error)
    out = {'evaluations': 0, 'counters': {}, 'sigs': [], 'violations': []}
    c = out['counters']

    def bump(k, n=1):
        c[k] = c.get(k, 0) + n

    def viol(key, what, witness):
        if len(out['violations']) < 10:
            out['violations'].append({'key': key, 'what': what, 'witness': witness})

    for shape in case['shapes']:
        t = gen_tx(rng, tuple(shape))
        raw = t.raw
        out['evaluations'] += 1
        try:
            d = Deserializer(raw)
            tx, h = d.read_tx_and_hash()
            ok = (fields(tx) == ours(t) and h == dsha(raw) and d.cursor == len(raw)
                  and tx.serialize() == raw)
            # also embedded at an offset inside a larger buffer
            pad = rng.randbytes(rng.randrange(1, 9))
            d2 = Deserializer(pad + raw + pad, start=len(pad))
            tx2, h2 = d2.read_tx_and_hash()
            ok2 = fields(tx2) == ours(t) and h2 == dsha(raw) and d2.cursor == len(pad) + len(raw)
        except Exception as e:   # noqa
            viol('parse/raises-on-valid', f'parsing a valid tx of shape {shape} raised {e!r}', {'shape': shape, 'seed': case['seed']})
            continue
        bump('roundtrips_compared')
        if not ok or not ok2:
            viol('parse/roundtrip-mismatch', f'parse/serialize/hash mismatch for shape {shape}', {'shape': shape, 'seed': case['seed'], 'raw': raw[:200]})
        out['sigs'].append(digest(('tx', shape)))
        # truncation: every strict prefix (sampled beyond 2 kB, but always around field boundaries)
        if len(raw) <= case['all_trunc_below']:
            cuts = range(0, len(raw))
        else:
            cuts = sorted(set(list(range(0, 200)) + list(range(len(raw) - 200, len(raw)))
                              + [rng.randrange(len(raw)) for _ in range(300)]))
        for k in cuts:
            bump('truncations_tried')
            try:
                Deserializer(raw[:k]).read_tx()
            except allowed:
                continue
            except Exception as e:   # noqa
                viol('truncation/undocumented-exception', f'prefix {k}/{len(raw)} of shape {shape} raised {e!r} '
                     '(iter_txs only expects AssertionError/IndexError/struct.error)', {'shape': shape, 'cut': k, 'seed': case['seed']})
                break
            else:
                viol('truncation/yields-transaction', f'prefix {k}/{len(raw)} of shape {shape} parsed as a tx',
                     {'shape': shape, 'cut': k, 'seed': case['seed']})
                break
    return out


def gen_block(rng, pattern, height):
    '''pattern: list of approximate tx sizes.'''
    txs = []
    for i, size in enumerate(pattern):
        if i == 0:
            sl = max(0, size - 60)
            t = Tx([(ZERO32, MINUS1, rng.randbytes(min(sl, 100)), MINUS1)],
                   [(50, rng.randbytes(max(0, sl - 100)))], locktime=rng.randrange(1 << 30))
        else:
            n_out = rng.choice((1, 2, 3)) if size != 60 else 1     # 60: the minimal transaction (one input, one output, empty scripts)
            sl = max(0, size - 60 - 9 * n_out)
            t = Tx([(rng.randbytes(32), rng.randrange(4), b'', 0)],
                   [(rng.randrange(1000), rng.randbytes(sl if j == 0 else 0)) for j in range(n_out)],
                   locktime=rng.randrange(1 << 30))
        txs.append(t)
    return Block(None, height, txs, salt=rng.randrange(1 << 30))


def block_patterns(rng, thorough):
    P = [
        [70], [300], [70, 70], [70] * 9,
        [400, 70, 70], [70, 400, 70], [70, 70, 400], [400, 400], [70, 300, 70, 300, 70],
        [70] * 3 + [200] + [70] * 3, [500], [90, 61, 62, 63, 64, 65, 66, 250],
        [70, 60], [300, 70, 60], [70, 60, 60, 60], [90, 60, 300, 60],      # blocks ending in (or made of) minimal 60-byte txs
    ]
    if thorough:
        P += [[2000, 70, 70, 900], [70, 70, 2500, 70], [70] * 40, [1000, 1000, 1000], [70, 3000],
              [61] * 300]   # 300 txs: 3-byte tx count varint
    else:
        P += [[61] * 255]
    return P


def child_chunks(case):
    import electrumx.server.block_processor as bpmod
    rng = random.Random(case['seed'])
    out = {'evaluations': 0, 'counters': {}, 'sigs': [], 'violations': []}
    c = out['counters']

    def bump(k, n=1):
        c[k] = c.get(k, 0) + n

    tmp = scratch_dir('exv-c13-')
    try:
        os.chdir(tmp)
        os.makedirs('meta/blocks')
        blk = gen_block(rng, case['pattern'], case['height'])
        hex_hash = blk.hash[::-1].hex()
        with open(bpmod.OnDiskBlock.filename(hex_hash, blk.height), 'wb') as f:
            f.write(blk.raw)
        want = [(ours(t), t.hash) for t in blk.txs]
        nvar = len(varint(len(blk.txs)))
        first_len = len(blk.txs[0].raw)
        for cs in case['chunks']:
            out['evaluations'] += 1
            od = bpmod.OnDiskBlock(hex_hash, blk.height, len(blk.raw))
            od.chunk_size = cs
            ctx = {'pattern': case['pattern'], 'seed': case['seed'], 'chunk_size': cs, 'block_size': len(blk.raw),
                   'first_tx_len': first_len, 'height': case['height']}
            big_at = [i for i, t in enumerate(blk.txs) if len(t.raw) > cs]
            if big_at:
                bump('cases_with_tx_larger_than_chunk')
                if 0 in big_at:
                    bump('first_tx_larger_than_chunk')
                if len(blk.txs) - 1 in big_at and len(blk.txs) > 1:
                    bump('last_tx_larger_than_chunk')
                if any(0 < i < len(blk.txs) - 1 for i in big_at):
                    bump('middle_tx_larger_than_chunk')
            try:
                with od as b:
                    got = [(fields(tx), bytes(h)) for tx, h in b.iter_txs()]
            except Exception as e:   # noqa
                out['violations'].append({'key': 'chunking/forward-raises', 'what': f'iter_txs raised {e!r} chunk={cs}', 'witness': ctx})
                got = None
            if got is not None:
                bump('forward_compared')
                if got != want:
                    out['violations'].append({'key': 'chunking/forward-mismatch',
                                              'what': f'iter_txs yielded {len(got)} txs, expected {len(want)} (or different content) chunk={cs}',
                                              'witness': ctx})
            od = bpmod.OnDiskBlock(hex_hash, blk.height, len(blk.raw))
            od.chunk_size = cs
            first_chunk_empty = first_len > cs - nvar
            try:
                with od as b:
                    got = [(fields(tx), bytes(h)) for tx, h in b.iter_txs_reversed()]
            except Exception as e:   # noqa
                key = ('chunk-offsets/first-tx-exceeds-chunk' if first_chunk_empty else 'chunking/reverse-raises')
                out['violations'].append({'key': key, 'what': f'iter_txs_reversed raised {e!r} chunk={cs} '
                                          f'(first chunk holds a complete tx: {not first_chunk_empty})', 'witness': ctx})
                got = None
            if got is not None:
                bump('reverse_compared')
                if got != want[::-1]:
                    key = ('chunk-offsets/first-tx-exceeds-chunk' if first_chunk_empty else 'chunking/reverse-mismatch')
                    out['violations'].append({'key': key, 'what': f'iter_txs_reversed differs from exact reverse chunk={cs}', 'witness': ctx})
            if len(out['violations']) > 6:
                break
            out['sigs'].append(digest(('blk', case['pattern'], cs)))
        out['sample'] = {'block_pattern_tx_sizes': case['pattern'][:12], 'block_bytes': len(blk.raw),
                         'chunk_sizes': [case['chunks'][0], '...', case['chunks'][-1]]}
    finally:
        os.chdir('/')
        shutil.rmtree(tmp, ignore_errors=True)
    # keep at most one violation per key in the child (the parent dedups by key anyway)
    seen, vs = set(), []
    for v in out['violations']:
        if v['key'] not in seen:
            seen.add(v['key'])
            vs.append(v)
    out['violations'] = vs
    return out


def run(tier, seed, replay=None):
    rep = Report(PID, tier, seed, 'exploration')
    thorough = tier == 'thorough'
    rng = random.Random(seed)
    shapes = tx_shapes(thorough)
    reps = 6 if thorough else 2
    cases = []
    for r in range(reps):
        for i in range(0, len(shapes), 4):
            cases.append({'seed': seed * 7919 + r * 1000 + i, 'shapes': shapes[i:i + 4],
                          'all_trunc_below': 6000 if thorough else 2048})
    rep.absorb(run_cases(child_roundtrip, cases, watchdog=600), 'roundtrip')

    ccases = []
    limit = 6000 if thorough else 1300
    for pi, pattern in enumerate(block_patterns(rng, thorough)):
        approx = 81 + sum(pattern) + 20 * len(pattern)
        if approx <= limit:
            chunks = list(range(9, approx + 40))
        else:
            chunks = sorted(set(list(range(9, 300)) + [rng.randrange(300, approx + 40) for _ in range(500)]
                                + [approx, approx + 39]))
        # split the chunk-size range over several children
        per = 400
        for j in range(0, len(chunks), per):
            ccases.append({'seed': seed * 104729 + pi, 'pattern': pattern, 'height': pi + 1, 'chunks': chunks[j:j + per]})
    rep.absorb(run_cases(child_chunks, ccases, watchdog=900), 'chunks')
    rep.floor('roundtrips_compared', rep.counters['roundtrips_compared'], len(shapes))
    rep.floor('truncations_tried', rep.counters['truncations_tried'], 20000)
    rep.floor('forward_compared', rep.counters['forward_compared'], 3000)
    rep.floor('reverse_compared', rep.counters['reverse_compared'], 3000)
    for k in ('first_tx_larger_than_chunk', 'middle_tx_larger_than_chunk', 'last_tx_larger_than_chunk'):
        rep.floor(k, rep.counters[k], 50)
    rep.exhaustive = False
    return rep.finish(
        rule='(a) generated txs at varint width boundaries (counts 1/2/252/253/254, script lengths 0..65536, extreme '
             'values) parsed by the real Deserializer and compared with construction data, re-serialised, hashed; every '
             'strict prefix (<=2 kB txs, sampled beyond) must raise AssertionError/IndexError/struct.error. (b) real '
             'OnDiskBlock.iter_txs / iter_txs_reversed on block files for every chunk size 9..block size+40 (blocks <= '
             f'{limit} bytes; sampled beyond) incl. txs larger than the chunk at first/middle/last position. distinct = '
             '(tx shape) + (block pattern, chunk size)',
        assumptions=['chunk sizes below 9 bytes (smaller than the tx-count varint) are not a meaningful configuration',
                     'the generator serialiser is the ground truth'])
