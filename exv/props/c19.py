'''C19 - only verified, public, recently good peers are advertised, spread over networks; peers built
from arbitrary feature dictionaries have sane ports and publicness.

Real PeerManager.on_peers_subscribe / Peer.peers_from_features / PeerManager.on_add_peer driven with
constructed populations; oracle = independent table of address classes and hostname grammar.'''
import asyncio
import ipaddress
import json
import random
import re
import shutil

from exv.core import Report, run_cases, digest, scratch_dir

PID = 'C19'
STALE = 3 * 3600
NOW = 1_700_000_000.0

PUBLIC_V4 = ['8.8.8.8', '8.8.4.4', '8.8.77.1', '1.2.3.4', '1.2.9.9', '1.2.200.1', '93.184.216.34', '93.184.1.1', '151.101.1.69',
             '45.33.32.156', '45.33.99.7', '45.33.1.2', '200.1.2.3']
PRIVATE_V4 = ['10.0.0.1', '192.168.1.10', '172.16.5.5', '127.0.0.1', '169.254.1.1', '100.64.0.1', '0.0.0.0', '224.0.0.1',
              '255.255.255.255', '192.0.2.1', '198.18.0.1', '240.0.0.1', '198.51.100.7', '203.0.113.9']
PUBLIC_V6 = ['2001:4860:4860::8888', '2001:4860:4860:0:1::1', '2001:4860:4860:00ff::2', '2a00:1450:4001:81b::200e', '2606:4700:4700::1111',
             '2606:4700:4700:0001::5', '2606:4700:4700:00aa::6', '2a03:2880:f12f:83:face:b00c:0:25de']
PRIVATE_V6 = ['::1', 'fe80::1', 'fc00::1', 'fd12:3456::1', 'ff02::1', '::', '2001:db8::1', '::ffff:10.0.0.1']
GOOD_HOSTS = ['electrum.example.com', 'a-b.c0.org', 'sv.usebsv.net', 'x.y.z.example.io', 'e1.example.com', 'e2.example.com',
              'e3.example.com', 'node-7.bsv.example.org']
BAD_HOSTS = ['bad host.com', 'bad!host.com', '-lead.com', 'trail-.com', 'a..b.com', '', 'x' * 64 + '.com', ('a' * 60 + '.') * 5 + 'com',
             '1.2.3.256', 'localhost', 'foo.123',
             # address literals with stray brackets: neither a host name nor an address
             '[8.8.8.8]', '8.8.8.8]', '[[8.8.8.8', ']8.8.4.4[', '1.2.3.4[]', '[2001:4860:4860::8888]', '[2606:4700:4700::1111', '(8.8.8.8)', '<1.2.3.4>']
ONION = [f'{c * 16}.onion' for c in 'abcdefghijklmnopqrstuvwxyz234567'] + [f'{c * 8}{d * 8}.onion' for c in 'abcdefgh' for d in 'ijklmnop']


def is_routable_ip(s):
    '''Independent table (IANA special-purpose registries), no use of ipaddress.is_private/is_global.'''
    ip = ipaddress.ip_address(s)
    if ip.version == 6 and ip.ipv4_mapped is not None:
        ip = ip.ipv4_mapped      # an IPv4-mapped address is as routable as the IPv4 address it stands for
    if ip.version == 4:
        special = ['0.0.0.0/8', '10.0.0.0/8', '100.64.0.0/10', '127.0.0.0/8', '169.254.0.0/16', '172.16.0.0/12', '192.0.0.0/24',
                   '192.0.2.0/24', '192.88.99.0/24', '192.168.0.0/16', '198.18.0.0/15', '198.51.100.0/24', '203.0.113.0/24',
                   '224.0.0.0/4', '240.0.0.0/4']
    else:
        special = ['::/128', '::1/128', '::ffff:0:0/96', '64:ff9b:1::/48', '100::/64', '2001::/23', '2001:db8::/32', '2002::/16',
                   'fc00::/7', 'fe80::/10', 'ff00::/8']
    return not any(ip in ipaddress.ip_network(n) for n in special)


LABEL = re.compile(r'^[A-Za-z0-9]([A-Za-z0-9-]{0,61}[A-Za-z0-9])?$')


def hostname_class(h):
    '''"valid" / "invalid" / "ambiguous" by a conservative RFC 1123 grammar (ambiguous = not judged).'''
    if not isinstance(h, str):
        return 'invalid'
    if h == '' or len(h) > 253 or any(ord(c) < 33 or ord(c) > 126 for c in h):
        return 'invalid' if all(ord(c) < 128 for c in h) else 'ambiguous'
    if '_' in h or h.endswith('.'):
        return 'ambiguous'
    labels = h.split('.')
    if all(LABEL.match(x) for x in labels):
        return 'invalid' if labels[-1].isdigit() else 'valid'
    return 'invalid'


def truly_public(host):
    '''True / False / None (not judged).'''
    try:
        ipaddress.ip_address(host)
        return is_routable_ip(host)
    except ValueError:
        pass
    c = hostname_class(host)
    if c == 'ambiguous':
        return None
    if c == 'valid' and host.lower() == 'localhost':
        return False if host == 'localhost' else None
    return c == 'valid'


def bucket_of(ip):
    if not ip:
        return None
    a = ipaddress.ip_address(ip)
    return str(ipaddress.ip_network((ip, 16 if a.version == 4 else 56), strict=False))


def mk_features(host, tcp=50001, ssl=50002):
    return {'hosts': {host: {'tcp_port': tcp, 'ssl_port': ssl}}, 'protocol_min': '1.4', 'protocol_max': '1.4.2',
            'server_version': 'X 1.0', 'genesis_hash': 'ab' * 32, 'pruning': None}


def child_population(case):
    from exv import harness
    import electrumx.server.peers as peersmod
    from electrumx.lib.peer import Peer
    harness.install_log_capture()
    rng = random.Random(case['seed'])
    tmp = scratch_dir('exv-c19-')
    out = {'evaluations': 0, 'counters': {}, 'sigs': [], 'violations': []}
    c = out['counters']

    def bump(k, n=1):
        c[k] = c.get(k, 0) + n

    class Clock:
        now = NOW

        @classmethod
        def time(cls):
            return cls.now
    peersmod.time = Clock
    try:
        own_hosts = ['sv.own-server.org', 'ownabcdefghijklmnop.onion']
        env = harness.make_env(tmp, PEER_DISCOVERY='on',
                               REPORT_SERVICES=f'tcp://{own_hosts[0]}:50001,ssl://{own_hosts[0]}:50002,tcp://{own_hosts[1]}:50001')
        for pop in range(case['pops']):
            pm = peersmod.PeerManager(env, None)
            truth = {}
            npeers = rng.choice((3, 10, 30, 80, 160))
            # a quarter of the populations are onion-heavy with the clearnet peers crowded into few buckets, all recently verified:
            # few clearnet peers are handed out while many good peers are known
            onion_heavy = pop % 3 == 2
            if onion_heavy:
                npeers = rng.choice((80, 160, 240))
                bump('onion_heavy_populations')
            hosts_used = set()
            ips = PUBLIC_V4 + PUBLIC_V6
            for _ in range(npeers):
                kind = rng.choice(('pub4', 'pub6', 'priv4', 'priv6', 'host', 'host', 'badhost', 'onion', 'onion'))
                if onion_heavy:
                    kind = rng.choice(('onion', 'onion', 'onion', 'host', 'pub4'))
                ip_addr = None
                if kind == 'pub4':
                    host = rng.choice(PUBLIC_V4)
                    ip_addr = host
                elif kind == 'pub6':
                    host = rng.choice(PUBLIC_V6)
                    ip_addr = host
                elif kind == 'priv4':
                    host = rng.choice(PRIVATE_V4)
                    ip_addr = host
                elif kind == 'priv6':
                    host = rng.choice(PRIVATE_V6)
                    ip_addr = host
                elif kind == 'host':
                    host = rng.choice(GOOD_HOSTS) if rng.random() < 0.5 else f'h{rng.randrange(200)}.example.net'
                    ip_addr = rng.choice(ips + [None]) if not onion_heavy else rng.choice(PUBLIC_V4[:6])     # two /16s
                elif kind == 'badhost':
                    host = rng.choice(BAD_HOSTS)
                    ip_addr = rng.choice(ips + [None])
                else:
                    host = rng.choice(ONION)
                if host in hosts_used or host in own_hosts:
                    continue
                hosts_used.add(host)
                age = rng.choice(('good', 'good', 'good', 'justgood', 'juststale', 'stale', 'never', 'boundary'))
                if onion_heavy and rng.random() < 0.85:
                    age = 'good'
                last_good = {'good': NOW - rng.randrange(1, 3000), 'justgood': NOW - STALE + 1, 'juststale': NOW - STALE - 1,
                             'stale': NOW - 5 * STALE, 'never': 0, 'boundary': NOW - STALE}[age]
                p = Peer(host, mk_features(host), 'test', ip_addr=ip_addr, last_good=last_good)
                p.bad = rng.random() < 0.15
                pm.peers.add(p)
                truth[host] = {'kind': kind, 'ip': ip_addr, 'age': age, 'bad': p.bad, 'public': truly_public(host)}
            own_truth = {h: rng.choice(('good', 'stale', 'never')) for h in own_hosts}
            for me in pm.myselves:     # one Peer object per reported service; several may share a host
                me.last_good = {'good': NOW - 50, 'stale': NOW - 2 * STALE, 'never': 0}[own_truth[me.host]]
            by_host = {p.host: p for p in pm.peers}
            Clock.now = NOW
            for epoch in range(4):
                if epoch:
                    # the peer set changes between requests on the same manager: peers turn bad, go stale as time
                    # passes, are forgotten, get re-verified
                    bump('state_changes_between_requests')
                    for host in rng.sample(sorted(truth), max(1, len(truth) // 5)):
                        t = truth[host]
                        p = by_host[host]
                        how = rng.choice(('bad', 'forget', 'reverify', 'unbad', 'move', 'move'))
                        if how == 'move':
                            # re-verified at another address (a host name now resolving elsewhere): _verify_peer overwrites ip_addr
                            if t['kind'] in ('host', 'badhost'):
                                p.ip_addr = t['ip'] = rng.choice(ips)
                                p.last_good = Clock.now - 5
                                bump('peers_reverified_at_another_address')
                        elif how == 'bad':
                            p.bad = t['bad'] = True
                        elif how == 'unbad':
                            p.bad = t['bad'] = False
                        elif how == 'forget':
                            pm.peers.discard(p)
                            t['forgotten'] = True
                        else:
                            p.last_good = Clock.now - 5
                            t['last_good'] = p.last_good
                    if epoch == 2:
                        Clock.now += rng.choice((30, 2000, 4000, STALE))      # time passes
                    for host, t in truth.items():
                        lg = by_host[host].last_good
                        cutoff = Clock.now - STALE
                        t['age'] = 'never' if not lg else ('good' if lg > cutoff + 0.5 else ('boundary' if abs(lg - cutoff) <= 0.5 else 'stale'))
                    for me in pm.myselves:
                        own_truth[me.host] = 'good' if me.last_good > Clock.now - STALE else ('never' if not me.last_good else 'stale')
                for is_tor in (False, True):
                    for draw in range(case['draws']):
                        res = pm.on_peers_subscribe(is_tor)
                        out['evaluations'] += 1
                        bump('peer_lists_checked')
                        bump('peer_tuples_checked', len(res))
                        ctx = {'seed': case['seed'], 'population': pop, 'is_tor': is_tor}
                        buckets = {}
                        onions = 0
                        clear = 0
                        for (ip_or_host, host, details) in res:
                            if host in own_truth:
                                bump('own_identities_advertised')
                                clear += 1
                                if own_truth[host] != 'good':
                                    out['violations'].append({'key': 'peers/stale-own-identity', 'what': f'own identity {host} advertised although {own_truth[host]}', 'witness': ctx})
                                continue
                            t = truth.get(host)
                            if t is not None and t.get('forgotten'):
                                out['violations'].append({'key': 'peers/forgotten-peer-advertised', 'what': f'{host} was dropped from the peer set but is still advertised', 'witness': ctx})
                                continue
                            if t is None:
                                out['violations'].append({'key': 'peers/unknown-peer', 'what': f'unknown host {host!r} advertised', 'witness': ctx})
                                continue
                            if t['bad']:
                                out['violations'].append({'key': 'peers/bad-peer-advertised', 'what': f'{host} is marked bad', 'witness': ctx})
                            if t['age'] in ('juststale', 'stale', 'never'):
                                out['violations'].append({'key': 'peers/not-recently-verified', 'what': f'{host} advertised with last_good {t["age"]}', 'witness': ctx})
                            if t['public'] is False:
                                out['violations'].append({'key': 'peers/non-public-advertised', 'what': f'{host!r} ({t["kind"]}) is not publicly routable / not a valid hostname', 'witness': ctx})
                            if t['kind'] == 'onion':
                                onions += 1
                            else:
                                clear += 1
                                b = bucket_of(t['ip'])
                                if b:
                                    buckets[b] = buckets.get(b, 0) + 1
                        over = {b: n for b, n in buckets.items() if n > 2}
                        if over:
                            out['violations'].append({'key': 'peers/bucket-overflow', 'what': f'more than two peers in address bucket(s) {over}', 'witness': ctx})
                        if any(n == 2 for n in buckets.values()):
                            bump('lists_with_full_bucket')
                        cap = 50 if is_tor else max(10, clear // 4)
                        if onions > cap:
                            out['violations'].append({'key': 'peers/too-many-onion', 'what': f'{onions} onion peers, bound {cap} (tor={is_tor})', 'witness': ctx})
                        if onions >= 10:
                            bump('lists_with_10+_onion')
                        if len(out['violations']) > 10:
                            break
            out['sigs'].append(digest(('pop', case['seed'], pop)))
            if pop == 0:
                out['sample'] = {'population': {h: t for h, t in list(truth.items())[:8]}, 'own': own_truth}
    finally:
        shutil.rmtree(tmp, ignore_errors=True)
    seen, vs = set(), []
    for v in out['violations']:
        if v['key'] not in seen:
            seen.add(v['key'])
            vs.append(v)
    out['violations'] = vs
    return out


# ---- feature dictionaries ----------------------------------------------------------------

def json_values(rng, depth=0):
    prim = [None, True, False, 0, 1, -1, 80, 65535, 65536, 70000, -80, 2 ** 70, 1.5, 50001.0, 1e308, float('inf'), float('nan'),
            '', '80', ' 443 ', '8_0', '65536', '0', '-1', '1e3', 'abc', '９０', '9' * 5000, '\ud800', 't', 's50002']
    if depth > 1 or rng.random() < 0.8:
        return rng.choice(prim)
    if rng.random() < 0.5:
        return [json_values(rng, depth + 1) for _ in range(rng.randrange(0, 3))]
    return {rng.choice(('tcp_port', 'ssl_port', 'x')): json_values(rng, depth + 1) for _ in range(rng.randrange(0, 3))}


HOST_KEYS = (PUBLIC_V4[:3] + PRIVATE_V4 + PUBLIC_V6[:2] + PRIVATE_V6 + GOOD_HOSTS[:3] + BAD_HOSTS + ONION[:2]
             + ['LOCALHOST', 'under_score.com', 'trailing.dot.com.', 'münchen.de', 'xn--mnchen-3ya.de', '\ud800.com', 'a' * 300,
                '1.2.3.4/24', '[::1]', '::ffff:8.8.8.8', '8.8.8.8.', '008.008.008.008', '0x8.8.8.8', 'host:50001', ' ', '.', '..'])


def gen_features(rng):
    r = rng.random()
    if r < 0.05:
        return json_values(rng)
    hosts = {}
    for _ in range(rng.randrange(0, 4)):
        hk = rng.choice(HOST_KEYS)
        hv = rng.random()
        if hv < 0.6:
            hosts[hk] = {k: json_values(rng) for k in rng.sample(['tcp_port', 'ssl_port', 'ws_port', 'junk'], rng.randrange(0, 4))}
        else:
            hosts[hk] = json_values(rng)
    f = {'hosts': hosts if rng.random() < 0.9 else json_values(rng)}
    for k in ('protocol_min', 'protocol_max', 'pruning', 'server_version', 'genesis_hash', 'tcp_port', 'ssl_port'):
        if rng.random() < 0.5:
            f[k] = rng.choice([json_values(rng), '1.4', '1.4.2', '0.10', 'a.b', '1..2', 10, '3'])
    return f


def child_features(case):
    from exv import harness
    import electrumx.server.peers as peersmod
    from electrumx.lib.peer import Peer
    from aiorpcx import NetAddress
    harness.install_log_capture()
    rng = random.Random(case['seed'])
    tmp = scratch_dir('exv-c19f-')
    out = {'evaluations': 0, 'counters': {}, 'sigs': [], 'violations': []}
    c = out['counters']

    def bump(k, n=1):
        c[k] = c.get(k, 0) + n

    def viol(key, what, f):
        if not any(v['key'] == key for v in out['violations']):
            out['violations'].append({'key': key, 'what': what, 'witness': {'features': json.dumps(f, default=repr)[:1500], 'seed': case['seed']}})
    env = harness.make_env(tmp, PEER_DISCOVERY='on', REPORT_SERVICES='tcp://sv.own-server.org:50001')

    async def main():
        pm = peersmod.PeerManager(env, None)

        async def no_monitor(peer):
            return None
        pm._monitor_peer = no_monitor
        for i in range(case['n']):
            f = gen_features(rng)
            # what a client can send is JSON: round-trip through the wire format
            f = json.loads(json.dumps(f))
            out['evaluations'] += 1
            try:
                peers = Peer.peers_from_features(f, 'src')
            except Exception as e:    # noqa
                viol('features/peers_from_features-raises', f'peers_from_features raised {e!r}', f)
                continue
            bump('feature_dicts_built')
            for p in peers:
                bump('peers_built')
                try:
                    ports = (p.tcp_port, p.ssl_port)
                    pub = p.is_public
                    p.to_tuple()
                    p.serialize()
                except Exception as e:    # noqa
                    viol('features/peer-accessor-raises', f'peer built from features raised {e!r} on access', f)
                    continue
                for port in ports:
                    if port is not None and not (isinstance(port, int) and 1 <= port <= 65535):
                        viol('features/invalid-port', f'peer {p.host!r} has port {port!r}', f)
                    if port is not None:
                        bump('ports_present')
                want = truly_public(p.host)
                if want is None:
                    bump('publicness_not_judged_ambiguous_host')
                else:
                    bump('publicness_judged')
                    if pub and not want:
                        viol('features/non-public-treated-public', f'host {p.host!r} is treated as public', f)
                out['sigs'].append(digest(('host', p.host, repr(ports))))
            # add_peer entry point (peer discovery on); the announcing client sits at a public address
            pm.recent_peer_adds.clear()
            pm.permit_onion_peer_time = 0
            src = NetAddress(rng.choice(PUBLIC_V4[:3] + ['10.0.0.1']), 50000)
            try:
                r = await pm.on_add_peer(f, src)
                bump('add_peer_calls')
                if r:
                    bump('add_peer_accepted')
                if not isinstance(r, bool):
                    viol('add-peer/non-boolean-result', f'on_add_peer returned {r!r}', f)
            except UnicodeError as e:
                viol('add-peer/getaddrinfo-unicodeerror', f'on_add_peer raised {e!r} (host resolution of an announced host)', f)
            except Exception as e:    # noqa
                viol(f'add-peer/raises-{type(e).__name__}', f'on_add_peer raised {e!r}', f)
            if i == 0:
                out['sample'] = {'features': json.dumps(f, default=repr)[:600]}
    try:
        asyncio.run(main())
    finally:
        shutil.rmtree(tmp, ignore_errors=True)
    out['sigs'] = sorted(set(out['sigs']))[:400]
    return out


def child_handshake(case):
    '''Peer lists requested while verification handshakes (the real _should_drop_peer / _verify_peer) are suspended in a
    scripted in-memory session, and after they ended well, badly or unreachable.'''
    from exv import harness
    import electrumx.server.peers as peersmod
    from electrumx.lib.peer import Peer
    from aiorpcx import NetAddress
    harness.install_log_capture()
    rng = random.Random(case['seed'])
    tmp = scratch_dir('exv-c19h-')
    out = {'evaluations': 0, 'counters': {}, 'sigs': [], 'violations': []}
    c = out['counters']

    def bump(k, n=1):
        c[k] = c.get(k, 0) + n

    class Clock:
        now = NOW

        @classmethod
        def time(cls):
            return cls.now
    peersmod.time = Clock
    orig_connect = peersmod.connect_rs
    plans = {}          # host -> {'gate': Event, 'outcome': str, 'ip': str, 'at': str}

    class FakeDB:
        class state:
            height = 40

        @staticmethod
        async def raw_header(h):
            return bytes([h % 251]) * 80

    class FakeSession:
        def __init__(self, host, pm):
            self.host, self.pm, self.plan = host, pm, plans[host]
            self.sent_request_timeout = 30

        def remote_address(self):
            return NetAddress(self.plan['ip'], 50001)

        async def send_request(self, method, args=()):
            pl = self.plan
            if method == pl['at']:
                pl['suspended'] = True
                await pl['gate'].wait()
                if pl['outcome'] == 'bad':
                    return 17                    # not the type the message calls for: BadPeerError
                if pl['outcome'] == 'unreachable':
                    raise ConnectionError('connection lost')
            if method == 'server.version':
                return ['ElectrumX 1.20', '1.4']
            if method == 'blockchain.headers.subscribe':
                return {'height': FakeDB.state.height, 'hex': '00'}
            if method == 'blockchain.block.header':
                return (bytes([args[0] % 251]) * 80).hex()
            if method == 'server.features':
                return {'hosts': {self.host: {'tcp_port': 50001}}, 'genesis_hash': self.pm.env.coin.GENESIS_HASH, 'protocol_min': '1.4',
                        'protocol_max': '1.4.2', 'server_version': 'ElectrumX 1.20', 'pruning': None}
            if method == 'server.peers.subscribe':
                return []
            return True

    class FakeConnect:
        def __init__(self, host, port, **kw):
            self.host = host

        async def __aenter__(self):
            return FakeSession(self.host, FakeConnect.pm)

        async def __aexit__(self, *a):
            return False
    peersmod.connect_rs = FakeConnect

    async def main():
        env = harness.make_env(tmp, PEER_DISCOVERY='on', REPORT_SERVICES='tcp://sv.own-server.org:50001')
        for rnd in range(case['rounds']):
            pm = peersmod.PeerManager(env, FakeDB)
            FakeConnect.pm = pm
            plans.clear()
            truth = {}
            ips = list(PUBLIC_V4 + PUBLIC_V6)
            rng.shuffle(ips)
            # recently verified peers, then candidates that are not: never verified, stale, good-but-due-for-a-retry
            for k in range(rng.randrange(2, 8)):
                host = f'good{k}.example.net'
                p = Peer(host, mk_features(host), 'test', ip_addr=ips.pop(), last_good=Clock.now - rng.randrange(1, 3000))
                pm.peers.add(p)
                truth[host] = 'good'
            cands = []
            for k in range(rng.randrange(1, 6)):
                kind = rng.choice(('never', 'never', 'stale', 'good'))
                host = f'{kind}{k}.example.org' if rng.random() < 0.8 else rng.choice(ONION)
                if host in truth:
                    continue
                lg = {'never': 0, 'stale': Clock.now - 5 * STALE, 'good': Clock.now - 100}[kind]
                p = Peer(host, mk_features(host), 'test', ip_addr=None, last_good=lg)
                pm.peers.add(p)
                truth[host] = kind
                if host.endswith('.onion'):
                    pm.proxy = object()
                plans[host] = {'gate': asyncio.Event(), 'outcome': rng.choice(('good', 'good', 'bad', 'unreachable')),
                               'ip': ips.pop() if ips else '8.8.8.8',
                               'at': rng.choice(('server.version', 'server.features', 'blockchain.headers.subscribe', 'server.peers.subscribe'))}
                cands.append(p)
            tasks = [asyncio.ensure_future(pm._should_drop_peer(p)) for p in cands]
            for _ in range(20):
                await asyncio.sleep(0)
            suspended = [h for h, pl in plans.items() if pl.get('suspended')]
            bump('handshakes_suspended', len(suspended))

            def check(label):
                for is_tor in (False, True):
                    res = pm.on_peers_subscribe(is_tor)
                    out['evaluations'] += 1
                    bump('peer_lists_checked_during_or_after_handshakes')
                    for (_ip, host, _details) in res:
                        t = truth.get(host)
                        if t in ('never', 'stale', 'bad'):
                            out['violations'].append({'key': f'peers/not-recently-verified/{label}', 'what': f'{host} advertised although its state is {t} '
                                                      f'({label})', 'witness': {'seed': case['seed'], 'round': rnd}})
            check('verification-in-flight')
            # release the handshakes one by one, in random order, looking at the list after each
            order = list(plans)
            rng.shuffle(order)
            for h in order:
                plans[h]['gate'].set()
                for _ in range(30):
                    await asyncio.sleep(0)
                if plans[h].get('suspended'):
                    oc = plans[h]['outcome']
                    truth[h] = {'good': 'good', 'bad': 'bad', 'unreachable': truth[h]}[oc]
                    bump(f'handshakes_ended_{oc}')
                check('after-a-handshake-ended')
            await asyncio.gather(*tasks, return_exceptions=True)
            for t_ in tasks:
                if not t_.cancelled() and t_.exception() is not None:
                    out['violations'].append({'key': 'peers/verification-raised', 'what': f'_should_drop_peer raised {t_.exception()!r}',
                                              'witness': {'seed': case['seed'], 'round': rnd}})
            out['sigs'].append(digest(('handshake', case['seed'], rnd)))
    try:
        asyncio.run(main())
    finally:
        peersmod.connect_rs = orig_connect
        shutil.rmtree(tmp, ignore_errors=True)
    seen, vs = set(), []
    for v in out['violations']:
        if v['key'] not in seen:
            seen.add(v['key'])
            vs.append(v)
    out['violations'] = vs
    return out


def run(tier, seed, replay=None):
    rep = Report(PID, tier, seed, 'exploration')
    thorough = tier == 'thorough'
    cases = [{'seed': seed * 1009 + i, 'pops': 6 if thorough else 3, 'draws': 50 if thorough else 15} for i in range(32)]
    rep.absorb(run_cases(child_population, cases, watchdog=600), 'population')
    fcases = [{'seed': seed * 2003 + i, 'n': 4000 if thorough else 500} for i in range(32)]
    rep.absorb(run_cases(child_features, fcases, watchdog=600), 'features')
    hcases = [{'seed': seed * 3001 + i, 'rounds': 60 if thorough else 12} for i in range(16)]
    rep.absorb(run_cases(child_handshake, hcases, watchdog=600), 'handshake')
    c = rep.counters
    rep.floor('handshakes_suspended', c['handshakes_suspended'], 200)
    rep.floor('onion_heavy_populations', c['onion_heavy_populations'], 10)
    rep.floor('handshakes_ended_good', c['handshakes_ended_good'], 50)
    rep.floor('handshakes_ended_bad', c['handshakes_ended_bad'], 20)
    rep.floor('peer_lists_checked', c['peer_lists_checked'], 5000)
    rep.floor('state_changes_between_requests', c['state_changes_between_requests'], 200)
    rep.floor('peer_tuples_checked', c['peer_tuples_checked'], 20000)
    rep.floor('lists_with_full_bucket', c['lists_with_full_bucket'], 100)
    rep.floor('peers_reverified_at_another_address', c['peers_reverified_at_another_address'], 50)
    rep.floor('lists_with_10+_onion', c['lists_with_10+_onion'], 100)
    rep.floor('own_identities_advertised', c['own_identities_advertised'], 100)
    rep.floor('peers_built', c['peers_built'], 5000)
    rep.floor('publicness_judged', c['publicness_judged'], 3000)
    rep.floor('add_peer_calls', c['add_peer_calls'], 5000)
    return rep.finish(
        rule='(a) PeerManager populated with constructed peers (good/just-good/just-stale/stale/never/boundary x bad x public/private/'
             'special IPv4/IPv6, valid/invalid hostnames, localhost, onion, shared /16 and /56 buckets, missing ip_addr, own identities '
             'recent/stale/never) x tor/non-tor requester x repeated draws with the clock shimmed x 4 epochs on the same manager between '
             'which peers turn bad / are forgotten / re-verified and time passes; every returned tuple judged by an '
             'independent address-class table and hostname grammar, bucket and onion bounds recomputed independently. (b) '
             'Peer.peers_from_features and PeerManager.on_add_peer (peer discovery on, real getaddrinfo) on generated JSON feature '
             'dictionaries (wire round-tripped): never raise, ports None or 1..65535, is_public implies independent validity '
             '(ambiguous hosts - underscores, trailing dot, non-ASCII, LOCALHOST - are counted, not judged). (c) the real '
             '_should_drop_peer/_verify_peer over a scripted in-memory session, suspended at a chosen request: the peer list is requested '
             'while never-verified / stale / due peers are mid-handshake and after each handshake ends well, badly or unreachable. distinct = populations + '
             '(host, ports) outcomes',
        assumptions=['ipaddress parsing of literals', 'bool True accepted as port 1 (it is an in-range int)',
                     'no outgoing connections are made (peer monitoring stubbed on the instance; handshakes run over a scripted in-memory session)'])
