'''C17 - replies stay within the advertised size limits.'''
import asyncio
import hashlib
import random

from exv import harness, vloop
from exv.chainsim import World, Tx, hashx, scripthash_hex, p2pkh, MINUS1
from exv.core import Report, run_cases, digest
from exv.oracle import ChainOracle, hex_rev, status_of

PID = 'C17'
CAP = 2016


def build_world(seed, counts, nblocks):
    '''A chain of nblocks blocks in which script k has exactly counts[k] history entries (ping-pong txs: each spends
    the script's previous output and pays it again, so each tx adds exactly one entry).'''
    w = World(seed=seed)
    scripts = [p2pkh(100 + i) for i in range(len(counts))]
    w.tip = w.genesis = w.make_block(None, ntx=0, coinbase=w.coinbase(0, outs=[(50_0000_0000, p2pkh(1))]))     # genesis
    # block 1: fund every script (one entry each)
    u = dict(w.utxos(w.tip))
    src = max(u, key=lambda k: u[k][1])
    val = u[src][1]
    fund = Tx([(src[0], src[1], b'', MINUS1)], [(val // (len(scripts) + 1), s) for s in scripts], locktime=1)
    w.tip = w.make_block(w.tip, extra=[fund], ntx=0)
    last = {i: (fund.hash, i) for i in range(len(scripts))}
    remaining = [c - 1 for c in counts]
    blocks_left = nblocks - 2
    salt = 10
    for b in range(blocks_left):
        extra = []
        left = blocks_left - b
        for i, s in enumerate(scripts):
            q = -(-remaining[i] // left) if remaining[i] > 0 else 0      # ceil
            for _ in range(q):
                salt += 1
                o = last[i]
                t = Tx([(o[0], o[1], b'', MINUS1)], [(1000, s)], locktime=salt)
                extra.append(t)
                last[i] = (t.hash, 0)
                remaining[i] -= 1
        w.tip = w.make_block(w.tip, extra=extra, ntx=0)
    assert all(r == 0 for r in remaining), remaining
    w.bump()
    return w, scripts, last


def child(case):
    out = {'evaluations': 0, 'counters': {}, 'sigs': [], 'violations': [], 'inconclusive': []}
    c = out['counters']

    def bump(k, n=1):
        c[k] = c.get(k, 0) + n

    def viol(key, what, wit=None):
        if not any(v['key'] == key for v in out['violations']):
            out['violations'].append({'key': key, 'what': what, 'witness': {'case': case, 'detail': wit}})
    max_send = case['max_send']
    L = max(350000, max_send) // 99
    counts = [L - 2, L - 1, L, L + 1, L + 2, L + 400, 5]
    w, scripts, last = build_world(case['seed'], counts, case['nblocks'])
    vloop.Gate.enabled = False

    async def run(loop, dbdir):
        srv = harness.Server(w, dbdir, env_extra={'REORG_LIMIT': 5, 'MAX_SEND': max_send})
        if case.get('coin_default_max_send'):
            # a coin whose built-in default differs from the configured MAX_SEND (the configured value is what counts)
            srv.env.coin.DEFAULT_MAX_SEND = case['coin_default_max_send']
            bump('cases_with_configured_max_send_above_the_coin_default')
        srv = srv.start()
        if not await srv.wait_listening(3000) or not await srv.wait_caught_up(3000):
            out['inconclusive'].append(f'server did not come up: {srv.check_task()}')
            return
        orc = ChainOracle(w.active(), w.activation)
        cl = srv.client()
        await cl.call('server.version', ['c17', '1.4.2'])

        def full_json(hx):
            return [{'tx_hash': hex_rev(h), 'height': ht} for h, ht in orc.history(hx)]

        def status(hx):
            return status_of(orc.history(hx), [])
        prefixes_checked = 0
        for i, s in enumerate(scripts):
            hx, sh, n = hashx(s), scripthash_hex(s), counts[i]
            assert len(orc.history(hx)) == n
            for attempt in ('first', 'cached'):
                r = await cl.call('blockchain.scripthash.get_history', [sh], vtimeout=600)
                out['evaluations'] += 1
                bump('history_requests')
                if r is None:
                    viol('history/no-reply', f'no reply for history of {n} entries (limit {L})')
                    continue
                if 'result' in r:
                    got = r['result']
                    if got != full_json(hx):
                        kind = 'truncated-history-returned' if got == full_json(hx)[:len(got)] else 'wrong-history-returned'
                        viol(f'history/{kind}', f'get_history ({attempt}) returned {len(got)} entries for a history of {n} (limit {L})')
                    if n > L:
                        viol('history/over-limit-answered', f'a history of {n} entries was answered in full although the limit is {L} '
                             f'(MAX_SEND {max_send})')
                    bump('histories_answered_in_full')
                    import json
                    size = len(json.dumps(r))
                    if size > max(350000, max_send):
                        viol('history/reply-exceeds-max-send', f'reply of {size} bytes exceeds MAX_SEND {max_send}')
                else:
                    msg = str(r['error'].get('message'))
                    if 'too large' not in msg:
                        viol('history/unexpected-error', f'unexpected error for history of {n}: {msg[:200]}')
                    elif n < L:
                        viol('history/under-limit-refused', f'a history of {n} entries (limit {L}) was refused as too large ({attempt})')
                    bump('histories_refused_too_large')
                    bump(f'refused_{attempt}')
                out['sigs'].append(digest(('hist', max_send, n - L, attempt)))
            # subscription
            r = await cl.call('blockchain.scripthash.subscribe', [sh], vtimeout=600)
            bump('subscribe_requests')
            hxs = cl.session.hashX_subs
            if r is None:
                viol('subscribe/no-reply', f'no reply to subscribe for history of {n}')
            elif 'result' in r:
                if r['result'] != status(hx):
                    viol('subscribe/status-from-wrong-history', f'subscribe status for a history of {n} entries (limit {L}) is not the status of the '
                         'full history (computed from a truncated history?)')
                if n > L:
                    viol('subscribe/over-limit-accepted', f'subscription accepted for a history of {n} entries, limit {L}')
                bump('subscriptions_accepted')
            else:
                if n < L:
                    viol('subscribe/under-limit-refused', f'subscription refused for history of {n}, limit {L}')
                if hx in hxs:
                    viol('subscribe/refused-but-subscribed', 'subscribe was refused with an error but the subscription was stored')
                bump('subscriptions_refused')
            prefixes_checked += 1
        # an existing subscription whose history grows past the limit: scripts with L-2 and L-1 entries get three more
        seen = len(cl.tr.out)
        grow = {0: 3, 1: 3, 6: 1}
        salt = 10 ** 6
        for step in range(3):
            extra = []
            for i, k in grow.items():
                if step < k:
                    salt += 1
                    o = last[i]
                    t = Tx([(o[0], o[1], b'', MINUS1)], [(1000, scripts[i])], locktime=salt)
                    extra.append(t)
                    last[i] = (t.hash, 0)
            w.tip = w.make_block(w.tip, extra=extra, ntx=0)
            w.bump()
            if not await srv.wait_caught_up(600):
                out['inconclusive'].append('no catch-up after growth')
                return
            await asyncio.sleep(12)
            orc = ChainOracle(w.active(), w.activation)
            for m in cl.tr.out[seen:]:
                if m.get('method') == 'blockchain.scripthash.subscribe':
                    sh, st = m['params']
                    i = [scripthash_hex(s) for s in scripts].index(sh)
                    n = len(orc.history(hashx(scripts[i])))
                    bump('growth_notifications')
                    if st is None:
                        bump('growth_null_status_notifications')
                        if n < L:
                            viol('notify/null-status-under-limit', f'null status notified for a history of {n} < limit {L}')
                    elif st != status_of(orc.history(hashx(scripts[i])), []):
                        viol('notify/status-from-wrong-history', f'notified status for a history now {n} long (limit {L}) is not the status of the full history')
                    elif n > L:
                        viol('notify/over-limit-status', f'a full status was notified for a history of {n} > limit {L}')
            seen = len(cl.tr.out)
        for i in (0, 1):
            if hashx(scripts[i]) in cl.session.hashX_subs:
                viol('subscribe/over-limit-subscription-kept', f'subscription of a script whose history grew to {counts[i] + 3} (limit {L}) was not dropped')
            else:
                bump('over_limit_subscriptions_dropped')
        # ---- overlapping lookups of over-limit histories (several sessions, pipelined requests, a notification processed
        # while the history read is in flight): every answer must still be the 'history too large' refusal
        others = [srv.client(), srv.client()]
        for o_ in others:
            await o_.call('server.version', ['c17b', '1.4.2'])

        def touch_block(idxs):
            nonlocal salt
            extra = []
            for i in idxs:
                salt += 1
                o = last[i]
                t = Tx([(o[0], o[1], b'', MINUS1)], [(1000, scripts[i])], locktime=salt)
                extra.append(t)
                last[i] = (t.hash, 0)
            w.tip = w.make_block(w.tip, extra=extra, ntx=0)
            w.bump()

        async def judge_overlap(label, sent):
            for (c_, id_, kind, i) in sent:
                r = await c_.wait_reply(id_, 900)
                n = len(orc.history(hashx(scripts[i])))
                bump('overlapping_requests_judged')
                if r is None:
                    viol('overlap/no-reply', f'{label}: no reply to {kind} for a history of {n} (limit {L})')
                elif 'result' in r:
                    what = (f'{len(r["result"])} entries' if kind == 'get_history' else 'a status')
                    viol(f'overlap/{kind}-over-limit-answered', f'{label}: {kind} for a history of {n} entries (limit {L}) was answered with {what} '
                         'instead of the history-too-large refusal')
                elif 'too large' not in str(r['error'].get('message')):
                    viol('overlap/unexpected-error', f'{label}: {str(r["error"])[:160]}')
                else:
                    bump('overlapping_requests_refused_too_large')
            for c_ in [cl] + others:
                for i in (3, 4, 5):
                    if hashx(scripts[i]) in c_.session.hashX_subs:
                        viol('overlap/over-limit-subscription-kept', f'{label}: a session keeps a subscription to a history of '
                             f'{len(orc.history(hashx(scripts[i])))} entries (limit {L})')

        async def send(c_, kind, i):
            id_ = await c_.send(f'blockchain.scripthash.{kind}', [scripthash_hex(scripts[i])])
            return (c_, id_, kind, i)
        for rnd in range(2):
            touch_block((3, 5))                     # invalidates the cached refusals of scripts 3 and 5
            if not await srv.wait_caught_up(600):
                out['inconclusive'].append('no catch-up before the overlap phase')
                return
            await asyncio.sleep(12)
            orc = ChainOracle(w.active(), w.activation)
            sent = []
            for c_ in [cl] + others:
                sent.append(await send(c_, 'get_history', 5))
                sent.append(await send(c_, 'subscribe', 3))
                sent.append(await send(c_, 'get_history', 5))
            bump('pipelined_batches')
            await judge_overlap('pipelined requests from three sessions', sent)
        # a notification (non-empty touched set: a mempool tx paying the small script) processed while the reads are held
        touch_block((4, 5))
        if not await srv.wait_caught_up(600):
            out['inconclusive'].append('no catch-up before the race phase')
            return
        await asyncio.sleep(12)
        orc = ChainOracle(w.active(), w.activation)
        inval0 = srv.sm._history_invalidations

        def on_submit(job):
            if job.name.split('.')[-1] == 'read_history':
                job.longpark = 'job-end'
                job.park_secs = 9
                bump('history_reads_held')
        vloop.Gate.enabled = True
        loop.gex.on_submit = on_submit
        sent = [await send(cl, 'get_history', 5), await send(others[0], 'subscribe', 4), await send(others[1], 'get_history', 4)]
        await asyncio.sleep(0.5)
        salt += 1
        o = last[6]
        t = Tx([(o[0], o[1], b'', MINUS1)], [(900, scripts[6])], locktime=salt)
        w.mempool[t.hash] = t
        w.txs[t.hash] = t
        w.bump()
        await judge_overlap('a notification processed while the history reads were in flight', sent)
        loop.gex.on_submit = None
        vloop.Gate.enabled = False
        if srv.sm._history_invalidations > inval0:
            bump('history_reads_overlapped_by_an_invalidation')
        await asyncio.sleep(6)
        # ---- headers
        orc = ChainOracle(w.active(), w.activation)
        H = orc.height
        allh = orc.headers()

        roots = {}

        async def headers_case(start, count, cp, cap, H=None):
            H = orc.height if H is None else H
            r = await cl.call('blockchain.block.headers', [start, count, cp], vtimeout=600)
            out['evaluations'] += 1
            bump('headers_requests')
            if r is None:
                viol('headers/no-reply', f'no reply to headers({start},{count},{cp})')
                return
            avail = max(0, H + 1 - start)
            want = min(count, cap, avail)
            if 'error' in r:
                # only an inadmissible checkpoint may be refused
                if cp == 0 or want == 0 or (start + want - 1 <= cp <= H):
                    viol('headers/unexpected-error', f'headers({start},{count},{cp}) refused: {str(r["error"])[:150]}')
                else:
                    bump('headers_refused_bad_checkpoint')
                return
            res = r['result']
            if res.get('count') != want or len(res.get('hex', '')) != 160 * want or res.get('max') != cap:
                viol('headers/count-or-size', f'headers({start},{count},{cp}) returned count={res.get("count")} hexlen={len(res.get("hex", ""))} '
                     f'max={res.get("max")}; expected count={want} hexlen={160 * want} max={cap}')
            elif bytes.fromhex(res['hex']) != allh[start * 80:(start + want) * 80]:
                viol('headers/content', f'headers({start},{count},{cp}) returned wrong header bytes')
            if res.get('count', 0) > cap:
                viol('headers/over-cap', f'{res.get("count")} headers returned, advertised maximum {cap}')
            if cp and want and 'branch' in res and 'root' in res:
                # the proof that comes with the chunk: the LAST header returned must fold to the merkle root of all block hashes up
                # to the checkpoint (long chain: clamped chunks and counts around 2016)
                from exv.sysscen import fold_branch
                from exv.chainsim import dsha, merkle_root
                hh = start + want - 1
                if cp not in roots:
                    roots[cp] = merkle_root([dsha(allh[i * 80:(i + 1) * 80]) for i in range(cp + 1)])
                got_root, rest = fold_branch(dsha(allh[hh * 80:(hh + 1) * 80]), res['branch'], hh)
                bump('header_chunk_proofs_verified')
                if rest != 0 or got_root != roots[cp] or res['root'] != roots[cp][::-1].hex():
                    viol('headers/proof-does-not-verify', f'headers({start},{count},{cp}): the branch does not fold the last returned header '
                         f'(height {hh}) to the merkle root of the block hashes up to {cp}')
            out['sigs'].append(digest(('hdr', cap, start - H, min(count, cap + 2) - cap, cp != 0)))
        rng = random.Random(case['seed'])
        starts = sorted({0, 1, 2, H - CAP - 1, H - CAP, H - CAP + 1, H - CAP + 2, H - 2, H - 1, H, H + 1, H + 2, H + 50} & set(range(0, H + 60)))
        for start in starts:
            for count in (0, 1, 2, CAP - 1, CAP, CAP + 1, 5000, 2 ** 31):
                for cp in (0, H, min(H, start + min(count, CAP, max(0, H + 1 - start)) - 1), H + 1):
                    if cp < 0:
                        continue
                    await headers_case(start, count, cp, CAP)
        # the same code with the cap lowered through the class attribute: dense sweep
        cls = type(cl.session)
        orig_cap = cls.MAX_CHUNK_SIZE
        try:
            for cap in (1, 2, 7):
                cls.MAX_CHUNK_SIZE = cap
                for start in list(range(0, 4)) + list(range(H - 10, H + 3)):
                    for count in range(0, cap + 3):
                        await headers_case(start, count, rng.choice((0, 0, H)), cap)
        finally:
            cls.MAX_CHUNK_SIZE = orig_cap
        # requests that cross the chain end while the header file still holds orphaned headers beyond the tip: the window
        # of a forced reorg between its back-ups and its re-advance, held open by a daemon that answers slowly
        stall = {'on': True}
        srv.sim.script = lambda info: ({'latency': 40} if stall['on'] else None)
        rpc = srv.client(rpc=True)
        await rpc.call('reorg', [3], vtimeout=60)
        await rpc.close()
        if await srv.wait_until(lambda: srv.db.state.height == H - 3, 200):
            bump('reorg_windows_opened')
            for start in (H - 8, H - 5, H - 4, H - 3, H - 2, H):
                for count in (1, 2, 4, 6, 12):
                    await headers_case(start, count, 0, CAP, H=H - 3)
                    bump('headers_requests_in_reorg_window')
        stall['on'] = False
        if not await srv.wait_caught_up(900):
            out['inconclusive'].append('no catch-up after the forced reorg')
        # requests crossing the chain end while a new block has been processed in memory but is not flushed yet: the daemon
        # poll that precedes the catch-up flush is answered slowly
        H2 = srv.db.state.height
        hold = {'on': True}

        def slow_poll(info):
            if hold['on'] and info['method'] == 'getblockcount' and srv.bp.state.height > srv.db.state.height:
                return {'latency': 40}
            return None
        srv.sim.script = slow_poll
        w.tip = w.make_block(w.tip, ntx=1)
        w.bump()
        if await srv.wait_until(lambda: srv.bp.state.height == H2 + 1 and srv.db.state.height == H2, 200):
            bump('unflushed_block_windows_opened')
            for start in (H2 - 8, H2 - 2, H2 - 1, H2, H2 + 1):
                for count in (1, 2, 3, 4, 12):
                    await headers_case(start, count, 0, CAP, H=H2)
                    await headers_case(start, count, H2, CAP, H=H2)
                    bump('headers_requests_with_an_unflushed_block_in_memory', 2)
        hold['on'] = False
        srv.sim.script = None
        if not await srv.wait_caught_up(900):
            out['inconclusive'].append('no catch-up after the unflushed-block window')
        # requests crossing the chain end inside the flush of a new block: the flush job is held right before it extends the header
        # file; whatever height the database publishes at that instant, count, bytes and hex length must agree with it
        def hold_flush(job):
            if job.name.split('.')[-1] == 'flush_dbs':
                job.longpark = 'D:file:headers:write'
                job.park_secs = 30
        vloop.Gate.enabled = True
        loop.gex.on_submit = hold_flush
        w.tip = w.make_block(w.tip, ntx=1)
        w.bump()
        orc = ChainOracle(w.active(), w.activation)
        allh = orc.headers()

        def flush_parked():
            return any(j.longpark == 'D:file:headers:write' and j.label == j.longpark for j in loop.gex.jobs)
        if await srv.wait_until(flush_parked, 200):
            bump('flushes_held_before_the_header_write')
            Hs = srv.db.state.height
            for start in (Hs - 8, Hs - 2, Hs - 1, Hs, Hs + 1):
                for count in (1, 2, 3, 4, 12):
                    await headers_case(start, count, 0, CAP, H=srv.db.state.height)
                    bump('headers_requests_inside_a_flush')
        loop.gex.on_submit = None
        vloop.Gate.enabled = False
        if not await srv.wait_caught_up(900):
            out['inconclusive'].append('no catch-up after the held flush')
        exc = srv.check_task()
        if exc:
            viol('server-task/exception', exc.strip().splitlines()[-1][:200], exc)
        await srv.stop()
        srv.close_db()
    try:
        harness.run_scenario(run, seed=case['seed'], policy='eager', max_vtime=10 ** 9, max_jobs=10 ** 9, max_iter=10 ** 9)
    except (vloop.Budget, vloop.Quiescent) as e:
        out['inconclusive'].append(f'{type(e).__name__}: {e}')
    if case.get('sample'):
        out['sample'] = {'max_send': max_send, 'derived_limit': L, 'history_lengths': counts, 'chain_height': case['nblocks'] - 1}
    return out


def run(tier, seed, replay=None):
    rep = Report(PID, tier, seed, 'exploration')
    sends = [350000, 350064, 350163, 400000, 1000, 450000]
    if tier == 'thorough':
        sends += [350001, 350063, 350065, 350262, 500000, 349999]
    cases = [{'seed': seed * 13 + i, 'max_send': ms, 'nblocks': 2100 if i == 0 else 2030, 'sample': i == 0,
              'coin_default_max_send': 380000 if ms == 450000 else None} for i, ms in enumerate(sends)]
    rep.absorb(run_cases(child, cases, watchdog=1500), 'MAX_SEND setting')
    c = rep.counters
    for name, minimum in {'history_requests': 50, 'histories_answered_in_full': 15, 'histories_refused_too_large': 15, 'refused_cached': 8,
                          'subscriptions_refused': 8, 'subscriptions_accepted': 8, 'over_limit_subscriptions_dropped': 8,
                          'overlapping_requests_judged': 60, 'pipelined_batches': 6, 'history_reads_overlapped_by_an_invalidation': 3,
                          'headers_requests': 2000, 'headers_requests_with_an_unflushed_block_in_memory': 100, 'header_chunk_proofs_verified': 300, 'headers_requests_inside_a_flush': 60, 'headers_refused_bad_checkpoint': 20, 'headers_requests_in_reorg_window': 100}.items():
        rep.floor(name, c[name], minimum)
    return rep.finish(
        rule='per MAX_SEND setting (350000, 350064, 350163 -> derived limits 3535/3536/3537; 400000; one below the 350000 floor) a chain '
             'of 2030-2100 blocks is generated in which seven scripts have exactly limit-2 .. limit+2, limit+400 and 5 history entries; '
             'through a real session: get_history twice (fresh and from cache) and subscribe for each; histories below the limit must '
             'come back complete with the status of the full history, above it must be refused consistently and not subscribed '
             '(exactly at the limit either outcome is accepted, but never a prefix); then the two scripts just below the limit grow '
             'past it while subscribed: only null statuses may be notified and the subscriptions must be dropped. Overlap: three sessions '
             'pipeline get_history / subscribe for over-limit scripts whose cached refusal a block has just invalidated, and once more '
             'with the history reads held while a mempool notification (non-empty touched set) is processed: every answer must be the '
             'refusal and no subscription may be kept. Headers: '
             '(start,count,cp_height) triples around genesis, the 2016 cap and the chain end, plus dense sweeps with the cap lowered '
             'to 1/2/7 through the class attribute, requests crossing the chain end while a block is processed in memory but not flushed (slow '
             'daemon poll) and inside the flush itself (flush job held right before the header file write), '
             'and requests crossing the chain end inside the window of a forced reorg (blocks undone, '
             're-advance held back by a slow daemon: the header file holds orphaned headers beyond the tip): count == min(requested, max, '
             'available), hex length, bytes, max. distinct = '
             '(MAX_SEND, length - limit, fresh/cached) + (cap, start - height, count - cap, cp given)',
        assumptions=['a history of exactly `limit` entries may be answered either way'])
