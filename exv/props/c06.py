'''C06 - shutdown at any moment leaves a consistent database and keeps finished work.

The real Controller.run() (signal handlers included) runs on the virtual-time loop with the gated
executor; SIGTERM is delivered to the process at loop iteration k.  After run() returns the executor is
drained (as asyncio.run does), the database is reopened as a restart does and judged.'''
import asyncio
import os
import random
import signal

from exv import harness, vloop
from exv.core import Report, run_cases, digest
from exv.crash import build_static
from exv.oracle import ChainOracle
from exv.scen import all_keys, sample_outpoints, flushvec_of, Monitors

PID = 'C06'
MUTATORS = ('flush_dbs', 'advance_block', 'backup_block')


def scenarios(seed):
    rng = random.Random(seed * 1000003 + 6)
    out = []
    # 0: small caught-up scenario (every instant enumerated); 1: initial sync with mixed flushes; 2: reorg; 3: forced reorg
    # 4: the daemon reorganises while the server is still syncing: old-branch blocks above the fork are complete in memory
    #    (unflushed) when the first block of the new branch fails to connect
    # 5: the daemon becomes unreachable during the initial sync: the blocks already fetched are processed, then the block processor
    #    sits in the daemon's retry loop with completed, unflushed blocks in memory when the stop arrives
    for i, kind in enumerate(('caught-up', 'initial-sync', 'reorg', 'forced-reorg', 'reorg-mid-sync', 'daemon-down')):
        fk = ('none', 'random', 'alt', 'sparseF', 'none', 'none')[i]
        sc = {'sid': f's{seed}-{kind}', 'kind': kind, 'wseed': rng.randrange(1 << 30), 'n0': (8, 16, 12, 12, 10, 14)[i], 'colls': 0,
              'prefetch': (100, 3, 8, 100, 100, 100)[i], 'reorg_limit': 3, 'flushkind': fk,
              'flushvec': flushvec_of(fk, random.Random(rng.randrange(1 << 30)))}
        if kind in ('reorg', 'reorg-mid-sync'):
            sc['fork'] = {'depth': 3, 'ext': 1, 'b_more': 1}
        else:
            sc['more'] = 2
        if kind == 'initial-sync':
            sc['a0'] = 6
        out.append(sc)
    return out


async def scenario_driver(sc, srv, w, tips, marks, loop):
    '''World events; marks records (iteration, label) so that cancellation instants can be stratified by phase.'''
    def mark(label):
        marks.append((loop.iter, label))
    mark('initial-sync')
    if 'A0' in tips:
        k = 6

        def script(info):
            if info['n'] == k and w.tip is tips['A0']:
                return {'mutate': lambda: w.switch_to(tips['A'])}
            return None
        srv.sim.script = script
    kind = sc['kind']
    if kind == 'daemon-down':
        seen_d = {'blocks': 0}

        def script3(info):
            # after a few block downloads every further request fails to connect, for good
            if info['method'] == 'rest/block':
                seen_d['blocks'] += 1
            if seen_d['blocks'] > 6:
                return {'fault': 'connerr'}
            return None
        srv.sim.script = script3
        await srv.wait_until(lambda: seen_d['blocks'] > 6, 300)
        mark('daemon-down')
        await asyncio.sleep(40)
        mark('end')
        return
    if kind == 'reorg-mid-sync':
        # the hashes of the old branch have been handed out; the daemon then moves to the other branch
        seen = {'hashes': 0}

        def script2(info):
            # next_block_hashes() hands out half of each batch: the second batch (6..10 -> 6, 7, 8) reaches above the fork point
            if info['method'] == 'getblockhash':
                seen['hashes'] += 1
            elif seen['hashes'] >= 2 and w.tip is tips['A']:
                return {'mutate': lambda: w.switch_to(tips['B'])}
            return None
        srv.sim.script = script2
    await srv.wait_caught_up(600)
    if w.tip is tips.get('A0'):
        w.switch_to(tips['A'])
        await srv.wait_caught_up(600)
    if kind in ('caught-up', 'initial-sync'):
        mark('caught-up-new-block')
        w.switch_to(tips['A+'].ancestor(tips['A'].height + 1))
        await srv.wait_caught_up(600)
        mark('caught-up-new-block-2')
        w.switch_to(tips['A+'])
        await srv.wait_caught_up(600)
    elif kind == 'reorg':
        mark('reorg')
        w.switch_to(tips['B'])
        await srv.wait_caught_up(600)
        mark('after-reorg')
        w.switch_to(tips['B2'])
        await srv.wait_caught_up(600)
    elif kind == 'reorg-mid-sync':
        mark('after-reorg')
        w.switch_to(tips['B2'])
        await srv.wait_caught_up(600)
    elif kind == 'forced-reorg':
        await srv.wait_listening(300)
        rpc = srv.client(rpc=True)
        mark('reorg')
        await rpc.call('reorg', [2])
        await asyncio.sleep(6)
        await srv.wait_caught_up(600)
        mark('after-reorg')
    mark('idle')
    await asyncio.sleep(11)
    mark('end')


def child(case):
    '''One (scenario, policy, instant) case; instant None = dry run returning K and the phase marks.'''
    sc = case['scenario']
    out = {'evaluations': 1, 'counters': {}, 'sigs': [], 'violations': [], 'inconclusive': []}
    c = out['counters']
    harness.install_log_capture()
    harness.db_tweak = None
    w, tips = build_static(sc)
    mon = Monitors(w)
    mon.install()
    from exv.core import scratch_dir
    import shutil
    dbdir = scratch_dir('exv-c06-')
    k = case.get('instant')
    marks = []
    st = {'signalled_at': None, 'alive_at_signal': [], 'events_at_signal': 0, 'overlap': 0, 'max_overlap': 0, 'run_exc': None}
    park = case['policy'].endswith('+park')
    loop = vloop.VLoop(seed=case['seed'], policy=case['policy'].split('+')[0], p=case.get('p', 0.3), max_park=case.get('max_park', 60),
                       max_vtime=5000, max_jobs=50000)
    asyncio.set_event_loop(loop)
    srv = harness.Server(w, dbdir, flushvec=sc.get('flushvec'), prefetch=sc.get('prefetch', 100),
                         env_extra={'REORG_LIMIT': sc.get('reorg_limit', 3)})

    def hook(lp):
        alive = [j.name.split('.')[-1] for j in lp.gex.jobs if j.name.split('.')[-1] in MUTATORS]
        if len(alive) >= 2:
            st['overlap'] += 1
        st['max_overlap'] = max(st['max_overlap'], len(alive))
        if k is not None and st['signalled_at'] is None and lp.iter >= k:
            if signal.SIGTERM not in getattr(lp, '_signal_handlers', {}):
                return       # before run() has installed its handlers a SIGTERM is a crash, not a shutdown request
            if park:
                # the jobs in flight stay blocked (a slow fsync, a descheduled thread) while the loop thread proceeds
                for j in lp.gex.jobs:
                    j.longpark = True
            st['signalled_at'] = lp.iter
            st['alive_at_signal'] = [(j.name.split('.')[-1], j.label) for j in lp.gex.jobs]
            st['events_at_signal'] = len(srv.events)
            os.kill(os.getpid(), signal.SIGTERM)
    loop.hooks.append(hook)

    async def main():
        srv.start_real_run()
        drv = asyncio.ensure_future(scenario_driver(sc, srv, w, tips, marks, loop))
        try:
            done, _pending = await asyncio.wait([srv.task, drv], return_when=asyncio.FIRST_COMPLETED)
            if srv.task not in done:
                # dry run: scenario over; stop the real way as well
                os.kill(os.getpid(), signal.SIGTERM)
                if st['signalled_at'] is None:
                    st['signalled_at'] = loop.iter
                    st['events_at_signal'] = len(srv.events)
            try:
                # "the server stops": bounded in virtual time (a clean stop needs a few seconds)
                await asyncio.wait_for(asyncio.shield(srv.task), 900)
            except asyncio.TimeoutError:
                st['does_not_stop'] = True
                srv.task.cancel()
                try:
                    await asyncio.wait_for(srv.task, 60)
                except BaseException:    # noqa
                    pass
            except asyncio.CancelledError:
                pass
            except Exception as e:    # noqa
                import traceback
                st['run_exc'] = ''.join(traceback.format_exception(type(e), e, e.__traceback__))[-2500:]
        finally:
            drv.cancel()
            try:
                await drv
            except BaseException:    # noqa
                pass
    try:
        try:
            loop.run_until_complete(main())
            # asyncio.run: cancel what is left, then wait for the executor's jobs
            for t in asyncio.all_tasks(loop):
                t.cancel()
            loop.run_until_complete(asyncio.sleep(0))
            loop.gex.drain()
            loop.run_until_complete(asyncio.sleep(0))
        except (vloop.Budget, vloop.Quiescent) as e:
            out['inconclusive'].append(f'{type(e).__name__}: {e} ({sc["sid"]} {case["policy"]} k={k})')
            return out
        K = loop.iter
        if k is None:
            out['dry'] = {'K': K, 'marks': marks, 'jobs': loop.gex.n, 'mon': dict(mon.c),
                          'events': [(kind, d.get('height')) for _t, kind, d in srv.events][:80],
                          'calls': [(n_, m_) for n_, m_, _b, _u in srv.sim.calls[:12]]}
        if st.get('does_not_stop'):
            out['violations'].append({'key': 'shutdown/does-not-stop', 'what': f'Controller.run() had not returned 900 virtual seconds after SIGTERM at '
                                      f'iteration {k} (jobs alive at the signal: {st["alive_at_signal"]})', 'witness': {'case': case}})
        if st['run_exc']:
            last = st['run_exc'].strip().splitlines()[-1][:200]
            out['violations'].append({'key': 'shutdown/exception-escapes:' + last.split(':')[0].split('.')[-1],
                                      'what': f'Controller.run() ended with {last} after shutdown at iteration {k}',
                                      'witness': {'case': case, 'traceback': st['run_exc']}})
        bp, db = srv.bp, srv.db
        phase = 'before-start'
        for it, label in marks:
            if st['signalled_at'] is not None and it <= st['signalled_at']:
                phase = label
        c[f'instants_in_phase:{phase}'] = 1
        alive_names = sorted({n for n, _l in st['alive_at_signal']})
        if any(n in MUTATORS for n in alive_names):
            c['instants_with_mutating_job_in_flight'] = 1
        for n in alive_names:
            c[f'instants_with_job_alive:{n}'] = 1
        c['iterations_with_overlapping_mutators'] = st['overlap']
        if st['max_overlap'] >= 2:
            c['runs_with_overlapping_mutating_jobs'] = 1
        mem = None
        if bp is not None and bp.state is not None:
            mem = (bp.state.height, bp.state.tip)
        if db is not None:
            harness.close_db(db)
        if mem is None or not os.path.isdir(os.path.join(dbdir, 'utxo')):
            c['stopped_before_database_open'] = 1
            return out
        # -- reopen as a restart does
        res = {}

        async def reopen(lp2):
            try:
                d2 = await harness.open_db(dbdir, genesis_hash=w.genesis.hash, REORG_LIMIT=sc.get('reorg_limit', 3))
            except BaseException as e:    # noqa
                import traceback
                res['open_exc'] = traceback.format_exc()[-2000:]
                return
            res['state'] = (d2.state.height, d2.state.tip)
            if d2.state.height >= 0:
                blk = w.by_hash.get(d2.state.tip)
                if blk is None or blk.height != d2.state.height:
                    res['unknown_tip'] = True
                else:
                    orc = ChainOracle(blk.chain(), w.activation)
                    keys = all_keys(w)
                    ops = sample_outpoints(orc, random.Random(3))
                    try:
                        ex = await harness.extract(d2, keys, ops)
                        res['diffs'] = harness.compare(ex, orc, keys, ops)
                    except harness.ReadStuck as e:
                        res['diffs'] = [('read-never-returns', str(e))]
            harness.close_db(d2)
        loop2 = vloop.VLoop(seed=1, policy='eager', max_vtime=3000, max_jobs=30000)
        asyncio.set_event_loop(loop2)
        try:
            loop2.run_until_complete(reopen(loop2))
        except (vloop.Budget, vloop.Quiescent) as e:
            out['inconclusive'].append(f'reopen {type(e).__name__}: {e}')
            return out
        c['reopens'] = 1
        wit = {'case': case, 'phase': phase, 'jobs_alive_at_signal': st['alive_at_signal'], 'signalled_at': st['signalled_at']}
        if 'open_exc' in res:
            out['violations'].append({'key': 'shutdown/reopen-fails', 'what': f'open_for_sync after shutdown at iteration {k} ({phase}) raised: '
                                      f'{res["open_exc"].strip().splitlines()[-1][:200]}', 'witness': dict(wit, traceback=res['open_exc'])})
            return out
        if res.get('unknown_tip'):
            out['violations'].append({'key': 'shutdown/unknown-tip', 'what': 'stored tip is not a block the daemon served', 'witness': wit})
            return out
        c['reopen_comparisons'] = 1
        if res.get('diffs'):
            kinds = sorted({x[0] for x in res['diffs']})
            dup = any(isinstance(x[1], dict) and x[1].get('dup') for x in res['diffs'])
            key = 'shutdown/index-differs:' + '+'.join(kinds)[:70]
            if dup and st['max_overlap'] >= 2:
                key = 'shutdown/unshielded-flush-overlap'
            out['violations'].append({'key': key, 'what': f'after shutdown at iteration {k} (phase {phase}, jobs alive {alive_names}) the reopened '
                                      f'index differs from a clean index of its stored height: {res["diffs"][:2]}', 'witness': wit})
        # finished work kept: the stored state is the in-memory state after every completed block job
        if res['state'] != mem:
            out['violations'].append({'key': 'shutdown/stored-state-behind-memory', 'what': f'stored (height, tip) {res["state"][0]} differs from the '
                                      f'in-memory state {mem[0]} after all block jobs had completed (shutdown at iteration {k}, {phase})', 'witness': wit})
        done_heights = [d['height'] for _t, kind, d in srv.events[:st['events_at_signal']] if kind in ('advanced', 'backed_up')]
        if done_heights:
            c['instants_after_some_block_job_completed'] = 1
            last_kind = [kind for _t, kind, d in srv.events[:st['events_at_signal']] if kind in ('advanced', 'backed_up')][-1]
            later = [d['height'] for _t, kind, d in srv.events[st['events_at_signal']:] if kind in ('advanced', 'backed_up')]
            final = (later or done_heights)[-1]
            if res['state'][0] != final:
                out['violations'].append({'key': 'shutdown/completed-block-not-included', 'what': f'blocks had been processed to height {final} '
                                          f'(last completed before the stop: {done_heights[-1]} by {last_kind}) but the stored height is {res["state"][0]}',
                                          'witness': wit})
        out['sigs'].append(digest((sc['sid'], case['policy'], phase, k, alive_names)))
        if case.get('sample'):
            out['sample'] = {'scenario': sc['sid'], 'policy': case['policy'], 'instant': k, 'of': K, 'phase': phase,
                             'jobs_alive_at_signal': st['alive_at_signal'], 'stored_height': res['state'][0]}
    finally:
        os.chdir('/')
        shutil.rmtree(dbdir, ignore_errors=True)
    return out


def run(tier, seed, replay=None):
    rep = Report(PID, tier, seed, 'fault_enumeration')
    if replay:
        import json
        rep.absorb(run_cases(child, [json.load(open(replay))['witness']['case']], watchdog=300))
        return rep.finish(rule='replay', min_distinct=0)
    scs = scenarios(seed)
    policies = [('lazy', 0.0), ('random', 0.3), ('pct', 0.0), ('lazy+park', 0.0)]
    dry_cases = [{'scenario': sc, 'policy': pol, 'p': p, 'seed': seed * 17 + i, 'instant': None}
                 for i, sc in enumerate(scs) for pol, p in policies]
    dry = run_cases(child, dry_cases, watchdog=300)
    rng = random.Random(seed)
    cases = []
    for dc, r in zip(dry_cases, dry):
        if r.status != 'ok' or 'dry' not in r.value:
            rep.inconc(f'dry run failed: {r.status} {str(r.value)[-200:]}')
            continue
        if r.value['violations']:
            rep.merge_child({'violations': r.value['violations'], 'evaluations': 0})
        K, marks = r.value['dry']['K'], r.value['dry']['marks']
        rep.count('dry_runs')
        rep.count('loop_iterations_in_dry_runs', K)
        bounds = [(it, label) for it, label in marks] + [(K, 'end')]
        ks = set()
        small = dc['scenario']['kind'] == 'caught-up'
        for (a, la), (b, _lb) in zip(bounds, bounds[1:]):
            span = list(range(a, max(a + 1, b)))
            if tier == 'quick' and dc['scenario']['kind'] == 'reorg-mid-sync' and la == 'initial-sync' and len(span) > 250:
                ks.update(rng.sample(span, 250))      # a long sync window: a dense sample keeps the quick tier within minutes
            elif tier == 'thorough' or (small and la == 'caught-up-new-block') or (dc['scenario']['kind'] == 'reorg-mid-sync' and la == 'initial-sync'):
                ks.update(span)                       # every instant of the window
            else:
                n = 14 if la in ('initial-sync', 'reorg', 'after-reorg', 'caught-up-new-block', 'caught-up-new-block-2', 'daemon-down') else 6
                ks.update(rng.sample(span, min(len(span), n)))
        ks.update(range(1, 6))
        for k in sorted(ks):
            cc = dict(dc)
            cc['instant'] = k
            cc['sample'] = len(cases) % 151 == 0
            cases.append(cc)
    rep.absorb(run_cases(child, cases, watchdog=300), 'instant')
    c = rep.counters
    for name, minimum in {'reopen_comparisons': 250, 'instants_with_mutating_job_in_flight': 40,
                          'instants_with_job_alive:flush_dbs': 10, 'instants_with_job_alive:advance_block': 10,
                          'instants_with_job_alive:backup_block': 3, 'instants_in_phase:initial-sync': 20,
                          'instants_in_phase:reorg': 10, 'instants_in_phase:daemon-down': 10, 'instants_in_phase:idle': 10,
                          'instants_in_phase:caught-up-new-block': 40, 'instants_after_some_block_job_completed': 150}.items():
        rep.floor(name, c[name], minimum)
    rep.exhaustive = tier == 'thorough'
    return rep.finish(
        rule='6 scenarios (small caught-up, initial sync with mixed flushes and a growing daemon, natural depth-3 reorg, forced reorg, daemon '
             'reorganising while the server still syncs so that the first new-branch block fails to connect onto unflushed old-branch blocks, '
             'daemon becoming unreachable during the sync so that the stop finds the block processor in the retry loop) x '
             '4 job-scheduling policies that leave worker jobs parked (lazy, random, PCT, and lazy with the jobs in flight at the signal kept '
             'blocked while the loop thread proceeds - a slow fsync); a dry run counts the loop iterations K and '
             'the phase boundaries; SIGTERM is delivered to the process at loop iteration k through the real Controller.run() signal '
             'path: quick = every instant of the caught-up windows of the small scenario + a stratified sample per phase elsewhere, '
             'thorough = every instant. After run() returns and the executor is drained the database is reopened (open_for_sync) and '
             'must equal a clean index of its stored height on the chain of its stored tip, the stored state must equal the in-memory '
             'state after all completed block jobs, and no exception may escape run(). distinct = (scenario, policy, phase, instant, '
             'jobs alive at the instant)',
        assumptions=['cancellation instants are loop iterations; jobs are parked at failpoint granularity (DB/file I/O, job start/end)',
                     'executor drained after run() returns, as asyncio.run does'])
