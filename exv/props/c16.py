'''C16 - malformed client requests are refused cleanly and change nothing.

Raw JSON-RPC messages (including tokens Python's parser accepts: NaN, Infinity, 1e999) are sent through
the real session path of a real server with a populated index.'''
import asyncio
import json
import logging
import random

from exv import harness, vloop
from exv.chainsim import World, hashx, scripthash_hex
from exv.core import Report, run_cases, digest
from exv.oracle import ChainOracle
from exv.scen import grow_chain

PID = 'C16'
INTERNAL_ERROR = -32603

METHODS = {
    'blockchain.block.header': ['height', 'cp_height'],
    'blockchain.block.headers': ['start_height', 'count', 'cp_height'],
    'blockchain.estimatefee': ['_number'],
    'blockchain.headers.subscribe': [],
    'blockchain.relayfee': [],
    'blockchain.scripthash.get_balance': ['scripthash'],
    'blockchain.scripthash.get_history': ['scripthash'],
    'blockchain.scripthash.get_mempool': ['scripthash'],
    'blockchain.scripthash.listunspent': ['scripthash'],
    'blockchain.scripthash.subscribe': ['scripthash'],
    'blockchain.scripthash.unsubscribe': ['scripthash'],
    'blockchain.transaction.broadcast': ['raw_tx'],
    'blockchain.transaction.get': ['tx_hash', 'verbose'],
    'blockchain.transaction.get_merkle': ['tx_hash', 'height'],
    'blockchain.transaction.get_tsc_merkle': ['tx_hash', 'height', 'txid_or_tx', 'target_type'],
    'blockchain.transaction.id_from_pos': ['height', 'tx_pos', 'merkle'],
    'mempool.get_fee_histogram': [],
    'server.add_peer': ['features'],
    'server.banner': [],
    'server.donation_address': [],
    'server.features': [],
    'server.peers.subscribe': [],
    'server.ping': [],
    'server.version': ['client_name', 'protocol_version'],
    'no.such.method': ['x'],
}

GENERIC = ['null', 'true', 'false', '0', '1', '-1', '5', '2016', '2017', '1e3', '2.5', '-0.0', '0.9999999', '1e999', '-1e999', 'NaN',
           'Infinity', '-Infinity', str(2 ** 70), str(-2 ** 70), '1' + '0' * 400, '4294967296', '18446744073709551616',
           '""', '"abc"', '"0"', '"12"', '" 7 "', '"1e3"', '"٣"', '"zz' + 'zz' * 31 + '"', '[]', '{}', '[[1]]', '{"a":1}', '[null]',
           '"' + 'ab' * 50000 + '"', '"\\u0000"', '"\\ud800"', '"txid"', '"tx"', '"block_hash"', '"block_header"', '"merkle_root"', '"None"',
           # 64 characters that bytes.fromhex() accepts but that are not 32 bytes: blanks, tabs, a few hex pairs padded with blanks
           '"' + ' ' * 64 + '"', '"' + '\\t' * 64 + '"', '"f00f' + ' ' * 60 + '"', '"' + 'ab' * 11 + ' ' * 42 + '"', '"' + '\\n' * 32 + 'cd' * 16 + '"']


def plausible(world, orc, rng):
    '''Values that reach deep into the handlers: real script hashes, tx ids, heights, positions.'''
    sh = [scripthash_hex(s) for s in world.scripts[:6]]
    txs = [t.hash[::-1].hex() for b in world.active()[-6:] for t in b.txs[:3]]
    big = max(range(len(orc.chain)), key=lambda h: len(orc.chain[h].txs))
    vals = ['"%s"' % x for x in sh] + ['"%s"' % x for x in txs]
    vals += ['"%s"' % sh[0][:63], '"%s0"' % sh[0], '"%s"' % sh[0].upper(), '" %s"' % sh[0], '"%s"' % sh[0][:62], '"0x%s"' % sh[0][2:]]
    vals += ['"%s%s"' % (sh[0][:32], ' ' * 32), '"%s %s"' % (sh[0][:32], sh[0][32:]), '"%s"' % (txs[0][:40] + ' ' * 24)]
    vals += ['"%s"' % txs[0][:63], '"%s"' % txs[0].upper(), '"%s"' % ('00' * 32), '"%s"' % ('ff' * 32)]
    vals += [str(h) for h in (0, 1, orc.height - 1, orc.height, orc.height + 1, big)] + [str(len(orc.chain[big].txs) - 1), str(len(orc.chain[big].txs))]
    vals += ['"%s"' % world.active()[3].txs[0].raw.hex(), '"00"', '"0"']
    vals += [json.dumps({'hosts': {'a' * 64 + '.com': {'tcp_port': 50001}}}), json.dumps({'hosts': {'a..b': {}}}),
             json.dumps({'hosts': {'8.8.8.8': {'tcp_port': 50001}}}), json.dumps({'hosts': {'example.com': {'tcp_port': '٣'}}}),
             json.dumps({'hosts': {'\ud800.com': {}}}), json.dumps({'hosts': {'xn--mnchen-3ya.de': {'ssl_port': 2 ** 70}}}),
             json.dumps({'hosts': []}), json.dumps({'hosts': {'': {}}}), json.dumps({'hosts': {'x.onion': {'tcp_port': 1}}})]
    vals += ['"1.4"', '"1.4.2"', '["1.4","1.4.2"]', '"1.5"', '"0.1"', '["1.0","0.9"]', '[1,2]', '"a.b"']
    return vals


def valid_args(rng, method, world, orc):
    '''A fully valid argument list for the method (as JSON texts), or None.'''
    h = rng.randrange(1, orc.height + 1)
    blk = orc.chain[h]
    pos = rng.randrange(len(blk.txs))
    txid = '"%s"' % blk.txs[pos].hash[::-1].hex()
    sh = '"%s"' % scripthash_hex(rng.choice(world.scripts[:8]))
    cp = rng.randrange(h, orc.height + 1)
    table = {
        'blockchain.block.header': [str(h), str(rng.choice((0, cp)))],
        'blockchain.block.headers': [str(h), str(rng.randrange(0, 6)), str(rng.choice((0, orc.height)))],
        'blockchain.estimatefee': ['2'],
        'blockchain.scripthash.get_balance': [sh], 'blockchain.scripthash.get_history': [sh], 'blockchain.scripthash.get_mempool': [sh],
        'blockchain.scripthash.listunspent': [sh], 'blockchain.scripthash.subscribe': [sh], 'blockchain.scripthash.unsubscribe': [sh],
        'blockchain.transaction.get': [txid, rng.choice(('true', 'false'))],
        'blockchain.transaction.get_merkle': [txid, str(h)],
        'blockchain.transaction.get_tsc_merkle': [txid, str(h), rng.choice(('"txid"', '"tx"')), rng.choice(('"block_hash"', '"block_header"', '"merkle_root"'))],
        'blockchain.transaction.id_from_pos': [str(h), str(pos), rng.choice(('true', 'false'))],
        'server.add_peer': [json.dumps({'hosts': {rng.choice(('8.8.8.8', 'example.com', '10.1.2.3')): {'tcp_port': 50001}}})],
        'server.version': ['"fuzz"', '"1.4"'],
    }
    return table.get(method)


NUMERIC_GRID = {'blockchain.block.header': {0: 'n', 1: 'cp'}, 'blockchain.block.headers': {0: 'n', 1: 'n', 2: 'cp'},
                'blockchain.transaction.id_from_pos': {0: 'n', 1: 'n'}, 'blockchain.transaction.get_merkle': {1: 'n'},
                'blockchain.transaction.get_tsc_merkle': {1: 'n'}}

FEATURE_KEYS = (('pruning', 'null'), ('tcp_port', '50001'), ('ssl_port', 'null'), ('server_version', '"ElectrumX 1.20"'),
                ('protocol_min', '"1.4"'), ('protocol_max', '"1.4.2"'), ('genesis_hash', '"%s"' % ('00' * 32)), ('hash_function', '"sha256"'))


def gen_features(rng, pool_generic, hosts=('8.8.8.8', '10.1.2.3', 'example.com', '1.2.3.4', 'x.onion')):
    '''A feature dictionary of the announced shape (hosts -> host -> ports, pruning, versions ...) in which any value may be
    replaced by any JSON value shape; built as text so that the raw tokens Infinity / NaN / 1e999 survive.'''
    def v(default, p=0.3):
        return rng.choice(pool_generic) if rng.random() < p else default
    hostds = []
    for h in rng.sample(hosts, rng.randrange(1, 3)):
        ports = [f'"{k}":{v(d, 0.4)}' for k, d in (('tcp_port', '50001'), ('ssl_port', '50002')) if rng.random() < 0.7]
        hostds.append(f'"{h}":{v("{" + ",".join(ports) + "}", 0.1)}')
    items = ['"hosts":{' + ','.join(hostds) + '}']
    for k, d in FEATURE_KEYS:
        if rng.random() < 0.6:
            items.append(f'"{k}":{v(d)}')
    rng.shuffle(items)
    return '{' + ','.join(items) + '}'


def gen_request(rng, method, names, pool_generic, pool_plausible, world=None, orc=None):
    r = rng.random()
    if orc is not None and method in NUMERIC_GRID and rng.random() < 0.4:
        # every numeric parameter at a boundary (in several spellings int() / the validators map to the same number),
        # the others valid: the combinations a check of one argument relies on another argument for
        H = orc.height
        small = ['0', '0', '1', '-1', '0.0', 'false', 'true', '"0"', '-0.5', '2', str(H - 1), str(H), str(H + 1), '2016', '2017']
        cps = ['0', '1', str(H // 2), str(H), str(H), str(H + 1), 'false', '"%d"' % H]
        va = valid_args(rng, method, world, orc)
        for i, kind in NUMERIC_GRID[method].items():
            va[i] = rng.choice(cps if kind == 'cp' else small)
        return '[' + ','.join(va) + ']'
    if method == 'server.add_peer' and rng.random() < 0.6:
        f = gen_features(rng, pool_generic)
        return '[' + f + ']' if rng.random() < 0.8 else '{"features":' + f + '}'
    if world is not None and rng.random() < 0.3:
        va = valid_args(rng, method, world, orc)
        if va is not None:
            if rng.random() < 0.5 and va:
                # exactly one argument replaced: the others are accepted, so the bad one is validated in depth
                va[rng.randrange(len(va))] = rng.choice(pool_generic if rng.random() < 0.6 else pool_plausible)
            if rng.random() < 0.25:
                return '{' + ','.join(f'"{k}":{v}' for k, v in zip(names, va)) + '}'
            return '[' + ','.join(va) + ']'

    def val():
        return rng.choice(pool_plausible) if rng.random() < 0.55 else rng.choice(pool_generic)
    if r < 0.7:
        n = len(names)
        k = rng.choice((n, n, n, max(0, n - 1), n + 1, 0, rng.randrange(0, 5)))
        params = '[' + ','.join(val() for _ in range(k)) + ']'
    elif r < 0.9:
        ks = list(names)
        if rng.random() < 0.3:
            ks = ks[:-1] if ks else ks
        if rng.random() < 0.2:
            ks.append('bogus')
        params = '{' + ','.join(f'"{k}":{val()}' for k in ks) + '}'
    else:
        params = rng.choice(('null', '5', '"x"', 'true', '[[]]', '{"":1}'))
    return params


def child(case):
    from electrumx.server import session as sessmod
    from aiorpcx import RPCError, ProtocolError, ReplyAndDisconnect, TaskTimeout
    from aiorpcx.session import ExcessiveSessionCostError
    rng = random.Random(case['seed'])
    out = {'evaluations': 0, 'counters': {}, 'sigs': [], 'violations': [], 'inconclusive': []}
    c = out['counters']
    escapes = []

    def bump(k, n=1):
        c[k] = c.get(k, 0) + n

    def viol(key, what, wit):
        if not any(v['key'] == key for v in out['violations']):
            out['violations'].append({'key': key, 'what': what, 'witness': dict(wit, case=case)})

    # class-level monitor on the handler boundary
    if not hasattr(sessmod.SessionBase, '_exv_hr'):
        sessmod.SessionBase._exv_hr = sessmod.SessionBase.handle_request
    orig_hr = sessmod.SessionBase._exv_hr

    async def handle_request(self_, request):
        try:
            return await orig_hr(self_, request)
        except (RPCError, ProtocolError, ReplyAndDisconnect, TaskTimeout, ExcessiveSessionCostError, asyncio.CancelledError):
            raise
        except BaseException as e:    # noqa
            escapes.append((getattr(request, 'method', None), type(e).__name__, repr(e)[:200]))
            raise
    sessmod.SessionBase.handle_request = handle_request

    w = World(seed=case['wseed'])
    grow_chain(w, 24, rng, big=case.get('big', 230))
    for _ in range(6):
        w.mempool_add()

    async def run(loop, dbdir):
        env_extra = {'REORG_LIMIT': 5, 'PEER_DISCOVERY': case['discovery'], 'PEER_ANNOUNCE': '', 'MAX_SEND': case.get('max_send', 1000000)}
        if case.get('drop_client'):
            env_extra['DROP_CLIENT'] = case['drop_client']       # rarely used setting: the client name is matched against a pattern
        srv = harness.Server(w, dbdir, env_extra=env_extra, txindex=True).start()
        if not await srv.wait_listening(600):
            out['inconclusive'].append(f'server did not start: {srv.check_task()}')
            return
        await srv.wait_caught_up()
        orc = ChainOracle(w.active(), w.activation)
        sm = srv.sm
        witness = srv.client(host='9.9.9.9')
        await witness.call('server.version', ['w', '1.4.2'])
        await witness.call('blockchain.headers.subscribe')
        for s in w.scripts[:4]:
            await witness.call('blockchain.scripthash.subscribe', [scripthash_hex(s)])
        # let the periodic refresh deliver whatever it has pending for the witness before the hostile requests start
        await asyncio.sleep(11)
        wit_msgs = len(witness.tr.out)
        from exv.oracle import MempoolOracle, admissible_statuses
        mo = MempoolOracle(orc, w.mempool)
        true_status = {scripthash_hex(s_): admissible_statuses(orc, mo, hashx(s_))[0] for s_ in w.scripts[:4]}
        pg, pp = GENERIC, plausible(w, orc, rng)
        methods = sorted(METHODS)

        def new_client(proto):
            cl = srv.client(host=rng.choice(('8.8.8.8', '10.1.2.3')))
            return cl
        client = None
        nreq = 0
        for i in range(case['n']):
            if client is None or client.tr.closed:
                client = new_client(None)
                if rng.random() < 0.7:
                    await client.call('server.version', ['fuzz', rng.choice(('1.4', '1.4.2', ['1.4', '1.4.2']))])
                bump('sessions_opened')
            method = methods[(i + case['seed']) % len(methods)] if rng.random() < 0.8 else rng.choice(methods)
            params = gen_request(rng, method, METHODS[method], pg, pp, w, orc)
            if method == 'server.version' and rng.random() < 0.6:
                # server.version is only looked at once per session: send the hostile one as the first message of a new session
                client = new_client(None)
                bump('sessions_opened')
                bump('hostile_version_as_first_message')
            if method == 'server.add_peer':
                # as if the ten-minute add_peer rate limit had been waited out (it is keyed on wall-clock time)
                sm.peer_mgr.recent_peer_adds.clear()
                bump('add_peer_requests')
            sess = client.session
            before = {'subs': dict(sess.hashX_subs), 'mps': dict(sess.mempool_statuses), 'hsub': sess.subscribe_headers,
                      'hist': {k: sm._history_cache.peek(k) for k in list(sm._history_cache.keys())},
                      'txh': {k: sm._tx_hashes_cache.peek(k) for k in list(sm._tx_hashes_cache.keys())}}
            client.next_id += 1
            id_ = client.next_id
            raw = '{"jsonrpc":"2.0","id":%d,"method":"%s","params":%s}' % (id_, method, params)
            n_esc = len(escapes)
            await client.tr.send_raw(raw)
            reply = await client.wait_reply(id_, 200)
            out['evaluations'] += 1
            nreq += 1
            bump('requests_sent')
            if method == 'server.add_peer' and isinstance(reply, dict) and reply.get('result') is True:
                bump('add_peer_requests_accepted')     # source matched: the announced ports / pruning were looked at
            wit = {'request': raw[:600], 'reply': json.dumps(reply)[:300] if reply is not None else None}
            if len(escapes) > n_esc:
                m, etype, erepr = escapes[-1]
                key = f'handler/internal-exception/{etype}'
                if etype == 'OverflowError':
                    key = 'validator/overflowerror'
                if etype == 'UnicodeError' and method == 'server.add_peer':
                    key = 'add-peer/getaddrinfo-unicodeerror'
                viol(key, f'{method} failed with internal exception {erepr}', wit)
            if reply is None:
                if client.tr.closed:
                    bump('requests_ending_in_disconnect')
                else:
                    viol('session/no-reply', f'no reply to {method} within 200 virtual seconds', wit)
                continue
            # well-formed JSON-RPC reply
            ok_shape = (isinstance(reply, dict) and reply.get('id') == id_ and (('result' in reply) != ('error' in reply)))
            if ok_shape and 'error' in reply:
                e = reply['error']
                ok_shape = isinstance(e, dict) and isinstance(e.get('code'), int) and isinstance(e.get('message'), str)
            if not ok_shape:
                viol('reply/malformed', f'reply to {method} is not a well-formed JSON-RPC reply', wit)
                continue
            try:
                json.dumps(reply, allow_nan=False)
            except ValueError:
                viol('reply/non-finite-number', f'reply to {method} contains NaN/Infinity', wit)
            if 'error' in reply:
                bump('error_replies')
                bump(f'err:{method}')
                if reply['error']['code'] == INTERNAL_ERROR:
                    viol('reply/internal-error-code', f'{method} was answered with "internal server error"', wit)
                # refused requests change nothing
                if dict(sess.hashX_subs) != before['subs'] or dict(sess.mempool_statuses) != before['mps'] or sess.subscribe_headers != before['hsub']:
                    viol('refused-request/subscription-state-changed', f'{method} was refused but the session subscription state changed', wit)
                for k in list(sm._history_cache.keys()):
                    v = sm._history_cache.peek(k)
                    if k in before['hist']:
                        if v is not before['hist'][k] and v != before['hist'][k]:
                            viol('refused-request/cache-entry-changed', f'{method} was refused but a history cache entry changed', wit)
                    elif not isinstance(v, Exception) and list(v) != orc.history(k, None)[:len(v)]:
                        viol('refused-request/cache-poisoned', f'{method} was refused and left a wrong history cache entry', wit)
                for k in list(sm._tx_hashes_cache.keys()):
                    v = sm._tx_hashes_cache.peek(k)
                    if k not in before['txh'] and (not isinstance(k, int) or not 0 <= k <= orc.height or list(v) != orc.tx_hashes_at(k)):
                        viol('refused-request/cache-poisoned', f'{method} was refused and left a wrong tx-hashes cache entry for {k!r}', wit)
            else:
                bump('result_replies')
                bump(f'ok:{method}')
                if method.startswith('blockchain.scripthash.') and method != 'blockchain.scripthash.unsubscribe':
                    # a result is only due for an argument that decodes (as the server decodes hex) to exactly 32 bytes, and it
                    # must then be the truth about that script hash
                    try:
                        pv = json.loads(params)
                        arg = pv[0] if isinstance(pv, list) else pv.get('scripthash')
                        dec = bytes.fromhex(arg) if isinstance(arg, str) else None
                    except (ValueError, IndexError, KeyError, AttributeError, TypeError):
                        dec = None
                    if dec is None or len(dec) != 32:
                        viol('scripthash/malformed-argument-answered', f'{method} returned a result for an argument that is not a 32-byte hex string', wit)
                    else:
                        hx_ = dec[::-1][:11]
                        bump('scripthash_results_judged')
                        res_ = reply['result']
                        if method.endswith('get_balance') and res_ != {'confirmed': orc.balance(hx_), 'unconfirmed': mo.balance_delta(hx_)}:
                            viol('scripthash/wrong-result', f'{method}: balance {res_} is not that of the script hash', wit)
                        elif method.endswith('listunspent') and len(res_) != len(orc.utxos_of(hx_)) + len(mo.unconfirmed_utxos(hx_)) - len(mo.true_spends(hx_)):
                            bump('listunspent_count_differs')
                        elif method.endswith('get_history') and [x['tx_hash'] for x in res_ if 'fee' not in x] != [h_[::-1].hex() for h_, _ht in orc.history(hx_, None)]:
                            viol('scripthash/wrong-result', f'{method}: confirmed history is not that of the script hash', wit)
            out['sigs'].append(digest((method, 'err' if 'error' in reply else 'ok', reply.get('error', {}).get('message', '')[:25] if 'error' in reply else '')))
            if len(witness.tr.out) != wit_msgs:
                # the world is static: whatever another client is told must still be the truth
                for m_ in witness.tr.out[wit_msgs:]:
                    bump('witness_messages_judged')
                    okm = False
                    if m_.get('method') == 'blockchain.scripthash.subscribe':
                        sh_, st_ = m_['params']
                        okm = st_ in true_status.get(sh_, ())
                    elif m_.get('method') == 'blockchain.headers.subscribe':
                        okm = m_['params'][0] == {'hex': w.tip.header.hex(), 'height': w.height()}
                    if not okm:
                        viol('witness/other-client-told-falsehood', f'another client received {str(m_)[:300]} after {method} although nothing changed', wit)
                wit_msgs = len(witness.tr.out)
        exc = srv.check_task()
        if exc:
            viol('server-task/exception', f'server task died: {exc.strip().splitlines()[-1][:200]}', {'traceback': exc})
        await srv.stop()
        srv.close_db()
    try:
        harness.run_scenario(run, seed=case['seed'], policy='eager', max_vtime=10 ** 9, max_jobs=10 ** 9, max_iter=10 ** 9)
    except (vloop.Budget, vloop.Quiescent) as e:
        out['inconclusive'].append(f'{type(e).__name__}: {e}')
    for h in logging.getLogger().handlers:
        if isinstance(h, harness.MemLog):
            bad = [r for r in h.records if r[3] and 'exception handling' in r[2]]
            c['logged_handler_exceptions'] = len(bad)
    out['sigs'] = sorted(set(out['sigs']))
    if case.get('sample'):
        out['sample'] = {'discovery': case['discovery'], 'escapes': escapes[:3]}
    return out


def run(tier, seed, replay=None):
    rep = Report(PID, tier, seed, 'exploration')
    per = 470 if tier == 'quick' else 16000
    cases = [{'seed': seed * 4099 + i, 'wseed': 77 + (i % 4), 'n': per, 'discovery': 'on' if i % 2 else 'off', 'sample': i < 2,
              'drop_client': ('evil.*', None, None, r'.*(bad|0\.0)')[i % 4]}
             for i in range(32 if tier == 'quick' else 64)]
    rep.absorb(run_cases(child, cases, watchdog=1500), 'fuzz batch')
    c = rep.counters
    rep.floor('requests_sent', c['requests_sent'], 14000)
    rep.floor('error_replies', c['error_replies'], 5000)
    rep.floor('result_replies', c['result_replies'], 2000)
    rep.floor('add_peer_requests_accepted', c['add_peer_requests_accepted'], 15)
    rep.floor('hostile_version_as_first_message', c['hostile_version_as_first_message'], 100)
    rep.floor('scripthash_results_judged', c['scripthash_results_judged'], 200)
    for m in METHODS:
        if m != 'no.such.method':
            rep.floor(f'err:{m}', c[f'err:{m}'], 5)
    for m in ('blockchain.block.header', 'blockchain.block.headers', 'blockchain.scripthash.get_history', 'blockchain.scripthash.subscribe',
              'blockchain.transaction.get_merkle', 'blockchain.transaction.get_tsc_merkle', 'blockchain.transaction.id_from_pos',
              'server.add_peer', 'blockchain.scripthash.listunspent'):
        rep.floor(f'ok:{m}', c[f'ok:{m}'], 3)
    return rep.finish(
        rule='every protocol method (both protocol tuples; plus an unknown method) x argument tuples/dicts drawn from a JSON shape '
             'grammar (null, booleans, ints to +-2^70 and 10^400, floats incl. NaN/+-Infinity/1e999 as raw tokens, digit strings, '
             'odd-length/upper-case/whitespace/63/65-char hex, nested containers, 100 kB strings, NUL, lone surrogates, wrong arity, '
             'by-name with missing/bogus names) mixed with plausible values (real script hashes, tx ids, heights, positions, feature '
             'dictionaries) so that handlers are entered deeply; sent as raw messages through the real session path against a '
             'populated index with a 230-tx block and a mempool, PEER_DISCOVERY off and on. Monitors: exception type escaping '
             'handle_request; reply shape; no -32603; on error replies the session subscription state is unchanged and no cache entry '
             'is changed or wrong; whatever a subscribed witness client receives meanwhile must be the (unchanged) truth. distinct = (method, outcome, error message prefix)',
        assumptions=['a cache entry that is new after a refused request but holds the correct value is not counted as an alteration',
                     'requests are sent sequentially per session (concurrent handler interleavings belong to C07/C10)'])
