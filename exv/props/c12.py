'''C12 - Merkle branches, roots and the incremental cache agree with the definition.

Drives the real electrumx.lib.merkle.Merkle / MerkleCache; the oracle is an independent
recursive definition written here (no electrumx code).'''
import asyncio
import hashlib
import random

from exv.core import Report, run_cases, digest

PID = 'C12'


def dsha(b):
    return hashlib.sha256(hashlib.sha256(b).digest()).digest()


def ref_levels(hashes):
    '''All levels of the Bitcoin merkle tree, bottom first.'''
    levels = [list(hashes)]
    cur = list(hashes)
    while len(cur) > 1:
        if len(cur) & 1:
            cur = cur + [cur[-1]]
        cur = [dsha(cur[i] + cur[i + 1]) for i in range(0, len(cur), 2)]
        levels.append(cur)
    return levels


def ref_branch(levels, index):
    '''(classic branch, tsc branch) from the definition.'''
    classic, tsc = [], []
    for lvl in levels[:-1]:
        if len(lvl) & 1 and index == len(lvl) - 1:
            classic.append(lvl[index])
            tsc.append(b'*')
        else:
            classic.append(lvl[index ^ 1])
            tsc.append(lvl[index ^ 1])
        index >>= 1
    return classic, tsc


def fold(leaf, branch, index):
    h = leaf
    for elt in branch:
        if elt == b'*':
            elt = h
        h = dsha(elt + h) if index & 1 else dsha(h + elt)
        index >>= 1
    return h, index


def mk_hashes(n, salt):
    return [hashlib.sha256(b'%d:%d' % (salt, i)).digest() for i in range(n)]


def ceil_log2(n):
    return (n - 1).bit_length()


# -- children ------------------------------------------------------------------------------

def child_lengths(case):
    from electrumx.lib.merkle import Merkle
    m = Merkle()
    out = {'evaluations': 0, 'counters': {}, 'sigs': [], 'violations': []}
    c = out['counters']

    def bump(k, n=1):
        c[k] = c.get(k, 0) + n

    def viol(key, what, witness):
        if len(out['violations']) < 20:
            out['violations'].append({'key': key, 'what': what, 'witness': witness})

    for n in case['lengths']:
        hashes = mk_hashes(n, n)
        levels = ref_levels(hashes)
        root = levels[-1][0]
        want_len = ceil_log2(n)
        try:
            r = m.root(hashes)
            if r != root:
                viol('root/mismatch', f'Merkle.root differs from definition for n={n}', {'n': n})
            bump('root_compared')
            bl = m.branch_length(n)
            bump('branch_length_compared')
            if bl != want_len:
                viol('branch-length/wrong-value', f'branch_length({n})={bl}, ceil(log2)={want_len}',
                     {'n': n, 'got': bl, 'want': want_len})
        except Exception as e:   # noqa
            viol('merkle/unexpected-exception', f'n={n}: {e!r}', {'n': n})
            continue
        for index in range(n):
            out['evaluations'] += 1
            cl, ts = ref_branch(levels, index)
            try:
                b1, r1 = m.branch_and_root(hashes, index)
                b2, r2 = m.branch_and_root(hashes, index, tsc_format=True)
                rp = m.root_from_proof(hashes[index], b1, index)
            except Exception as e:   # noqa
                viol('merkle/unexpected-exception', f'n={n} i={index}: {e!r}', {'n': n, 'index': index})
                continue
            bump('branches_compared', 2)
            if r1 != root or r2 != root:
                viol('root/mismatch', f'branch_and_root root differs n={n} i={index}', {'n': n, 'index': index})
            if len(b1) != want_len or len(b2) != want_len:
                viol('branch/length', f'len(branch)={len(b1)} want {want_len} n={n}', {'n': n, 'index': index})
            f1, rest = fold(hashes[index], b1, index)
            if f1 != r1 or rest != 0 or rp != r1:
                viol('branch/fold-mismatch', f'branch does not fold to root n={n} i={index}', {'n': n, 'index': index})
            if b1 != cl:
                viol('branch/definition', f'classic branch differs from definition n={n} i={index}', {'n': n, 'index': index})
            if b2 != ts:
                viol('tsc/marking', f'TSC branch differs from definition n={n} i={index}: '
                     f'stars got {[i for i, x in enumerate(b2) if x == b"*"]} want '
                     f'{[i for i, x in enumerate(ts) if x == b"*"]}', {'n': n, 'index': index})
            if any(x == b'*' for x in ts):
                bump('tsc_with_star')
            f2, _ = fold(hashes[index], b2, index)
            if f2 != root:
                viol('tsc/fold-mismatch', f'TSC branch with * expanded does not fold n={n} i={index}', {'n': n, 'index': index})
        # level / branch_and_root_from_level for every depth_higher
        if case.get('levels'):
            depth = want_len
            for dh in range(0, depth + 1):
                try:
                    lvl = m.level(hashes, dh)
                except Exception as e:   # noqa
                    viol('level/unexpected-exception', f'n={n} dh={dh}: {e!r}', {'n': n, 'dh': dh})
                    continue
                bump('levels_compared')
                want = levels[dh] if dh < len(levels) else levels[-1]
                if lvl != want:
                    viol('level/mismatch', f'level({n},{dh}) differs from definition', {'n': n, 'dh': dh})
                    continue
                step = max(1, n // 7)
                for index in list(range(0, n, step)) + [n - 1]:
                    seg = 1 << dh
                    ls = (index >> dh) << dh
                    leaf = hashes[ls: ls + seg]
                    cl, ts = ref_branch(levels, index)
                    for tsc in (False, True):
                        try:
                            b, r = m.branch_and_root_from_level(lvl, leaf, index, dh, tsc_format=tsc)
                        except Exception as e:   # noqa
                            viol('level/unexpected-exception', f'from_level n={n} dh={dh} i={index}: {e!r}',
                                 {'n': n, 'dh': dh, 'index': index})
                            continue
                        bump('from_level_compared')
                        f, _ = fold(hashes[index], b, index)
                        if r != root or f != root or len(b) != want_len:
                            viol('level/branch-mismatch', f'from_level n={n} dh={dh} i={index} tsc={tsc}',
                                 {'n': n, 'dh': dh, 'index': index, 'tsc': tsc})
                        elif not tsc and b != cl:
                            viol('level/branch-mismatch', f'from_level classic differs n={n} dh={dh} i={index}',
                                 {'n': n, 'dh': dh, 'index': index})
        out['sigs'].append(digest(('len', n)))
    return out


def child_boundaries(case):
    from electrumx.lib.merkle import Merkle
    m = Merkle()
    out = {'evaluations': 0, 'counters': {'branch_length_boundary': 0}, 'sigs': [], 'violations': []}
    bad = []
    for k in range(0, case['kmax'] + 1):
        for n in (2 ** k - 1, 2 ** k, 2 ** k + 1):
            if n < 1:
                continue
            out['evaluations'] += 1
            out['counters']['branch_length_boundary'] += 1
            try:
                got = m.branch_length(n)
                td = m.tree_depth(n)
            except Exception as e:   # noqa
                bad.append((n, repr(e)))
                continue
            if got != ceil_log2(n) or td != ceil_log2(n) + 1:
                bad.append((n, got, ceil_log2(n)))
            out['sigs'].append(digest(('bl', n)))
    if bad:
        out['violations'].append({
            'key': 'branch-length/wrong-value',
            'what': f'branch_length wrong at {len(bad)} power-of-two boundary values, first n={bad[0][0]} '
                    f'(got {bad[0][1]}, ceil(log2 n)={bad[0][2] if len(bad[0]) > 2 else "?"})',
            'witness': {'bad': bad[:30]}})
    return out


def child_cache(case):
    '''Random initialise/extend/truncate/query sequences on the real MerkleCache.'''
    from electrumx.lib.merkle import Merkle, MerkleCache
    rng = random.Random(case['seed'])
    out = {'evaluations': 0, 'counters': {}, 'sigs': [], 'violations': []}
    c = out['counters']

    def bump(k, n=1):
        c[k] = c.get(k, 0) + n

    async def one(seq_id):
        maxlen = case['maxlen']
        total = rng.randrange(1, maxlen + 1)
        src = mk_hashes(total, rng.randrange(1 << 30))
        gen = [0]

        async def source(start, count):
            assert start + count <= len(src), (start, count, len(src))
            bump('source_reads')
            return src[start:start + count]

        mc = MerkleCache(Merkle(), source)
        init_len = rng.randrange(1, total + 1)
        await mc.initialize(init_len)
        ops = [('init', init_len, total)]
        kinds = set()
        for _ in range(rng.randrange(3, case['ops'])):
            r = rng.random()
            if r < 0.25 and mc.length > 1:
                # truncate (as a reorg does): the source changes from that point on
                rr = rng.random()
                old_len = mc.length
                if rr < 0.35:
                    seg = 1 << mc.depth_higher
                    base = rng.randrange(1, max(2, mc.length // seg + 1)) * seg
                    t = max(1, min(len(src), base + rng.choice((-1, 0, 1))))
                elif rr < 0.7:
                    # inside the cache's final (possibly partial) segment, as a shallow reorg at the tip is
                    lo = max(1, (mc.length >> mc.depth_higher) << mc.depth_higher)
                    t = max(1, min(len(src), rng.randrange(lo, mc.length + 1)))
                    bump('cache_truncates_inside_final_segment')
                else:
                    t = rng.randrange(1, len(src) + 1)
                mc.truncate(t)
                if t < len(src):
                    gen[0] += 1
                    # the source grows back (other hashes), often to at least the cache's previous length
                    newtotal = rng.randrange(min(maxlen, max(t, old_len)) if rng.random() < 0.6 else t, maxlen + 1)
                    src[t:] = mk_hashes(newtotal - t, rng.randrange(1 << 30))
                ops.append(('truncate', t, len(src)))
                kinds.add('truncate')
                bump('cache_truncates')
            elif r < 0.31:
                # initialise again ("in any order"): any length the source can serve
                n = rng.choice((1, 3, 9, 36, rng.randrange(1, len(src) + 1)))
                n = max(1, min(n, len(src)))
                await mc.initialize(n)
                ops.append(('init', n, len(src)))
                kinds.add('reinit')
                bump('cache_reinitialisations')
            elif r < 0.38 and len(src) < maxlen:
                add = rng.randrange(1, maxlen - len(src) + 1)
                src.extend(mk_hashes(add, rng.randrange(1 << 30)))
                ops.append(('grow', len(src)))
            else:
                length = rng.randrange(1, len(src) + 1)
                rq = rng.random()
                if rq < 0.25:
                    length = len(src)
                elif rq < 0.55 and 1 <= mc.length <= len(src):
                    length = mc.length          # exactly the cache's length: served from the cached level without extension
                    bump('cache_queries_at_exactly_the_cached_length')
                index = rng.randrange(length)
                tsc = rng.random() < 0.3
                before = mc.length
                try:
                    b, root = await mc.branch_and_root(length, index, tsc_format=tsc)
                except Exception as e:   # noqa
                    out['violations'].append({'key': 'cache/unexpected-exception',
                                              'what': f'MerkleCache.branch_and_root raised {e!r}',
                                              'witness': {'seed': case['seed'], 'seq': seq_id, 'ops': ops,
                                                          'query': (length, index, tsc)}})
                    return
                if length > before:
                    kinds.add('extend')
                    bump('cache_extends')
                levels = ref_levels(src[:length])
                cl, ts = ref_branch(levels, index)
                want = ts if tsc else cl
                bump('cache_queries_compared')
                out['evaluations'] += 1
                ops.append(('query', length, index, tsc))
                if root != levels[-1][0] or b != want:
                    out['violations'].append({
                        'key': 'cache/mismatch',
                        'what': f'MerkleCache answer differs from from-scratch for (length={length}, index={index}) '
                                f'after {len(ops)} ops (root ok={root == levels[-1][0]}, branch ok={b == want})',
                        'witness': {'seed': case['seed'], 'seq': seq_id, 'ops': ops}})
                    return
        if {'truncate', 'extend'} <= kinds:
            out['sigs'].append(digest(('cacheseq', case['seed'], seq_id)))
            bump('cache_sequences_with_truncate_and_extend')
        if seq_id == 0:
            out['sample'] = {'cache_sequence': ops[:12]}

    async def main():
        for s in range(case['nseq']):
            await one(s)
            if len(out['violations']) >= 5:
                break
    asyncio.run(main())
    return out


def run(tier, seed, replay=None):
    rep = Report(PID, tier, seed, 'exploration')
    thorough = tier == 'thorough'
    maxn = 300 if thorough else 130
    lengths = list(range(1, maxn + 1))
    # balance: cost ~ n^2
    buckets = [[] for _ in range(32)]
    for i, n in enumerate(sorted(lengths, reverse=True)):
        buckets[i % 32 if (i // 32) % 2 == 0 else 31 - i % 32].append(n)
    cases = [{'kind': 'lengths', 'lengths': b, 'levels': True} for b in buckets if b]
    rep.absorb(run_cases(child_lengths, cases, watchdog=600), 'lengths')
    rep.absorb(run_cases(child_boundaries, [{'kmax': 62}], watchdog=60), 'boundaries')
    nchild = 64 if thorough else 16
    nseq = 320 if thorough else 25
    ccases = [{'seed': seed * 100003 + i, 'nseq': nseq, 'maxlen': 600, 'ops': 40 if thorough else 25}
              for i in range(nchild)]
    rep.absorb(run_cases(child_cache, ccases, watchdog=600), 'cache')
    rep.exhaustive = True
    rep.sample({'lengths_exhaustive': [1, maxn], 'indices': 'all', 'boundary_k': [0, 62]})
    rep.floor('branches_compared', rep.counters['branches_compared'], maxn * (maxn + 1) - 1)
    rep.floor('branch_length_boundary', rep.counters['branch_length_boundary'], 180)
    rep.floor('cache_queries_compared', rep.counters['cache_queries_compared'], 2000)
    rep.floor('cache_truncates', rep.counters['cache_truncates'], 200)
    rep.floor('cache_truncates_inside_final_segment', rep.counters['cache_truncates_inside_final_segment'], 100)
    rep.floor('cache_queries_at_exactly_the_cached_length', rep.counters['cache_queries_at_exactly_the_cached_length'], 500)
    rep.floor('cache_extends', rep.counters['cache_extends'], 200)
    rep.floor('cache_reinitialisations', rep.counters['cache_reinitialisations'], 100)
    return rep.finish(
        rule=f'every list length 1..{maxn} x every index (classic+TSC branch, root, root_from_proof, level, '
             f'branch_and_root_from_level for every depth) vs an independent recursive definition; branch_length/'
             f'tree_depth at 2^k-1,2^k,2^k+1 for k<=62; {nchild * nseq} random MerkleCache initialise/re-initialise/extend/truncate/'
             'query sequences (source rewritten after every truncation, lengths<=600) vs from-scratch. distinct = '
             'list lengths + boundary values + cache sequences containing both a truncation and an extension',
        assumptions=['hashlib SHA-256', 'exhaustive only up to the stated length bound'])
