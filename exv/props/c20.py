'''C20 - Notifications are issued only at heights both sources agree on, and drop nothing.

Bounded-exhaustive driving of the real electrumx.server.controller.Notifications with an online
monitor; every hand-over carries a unique token.  The same monitor class is attached to full-server
runs (C07) where the real hand-over sequences are also checked for membership in the environment
model used here.'''
import copy
import random

from exv.core import Report, run_cases, digest

PID = 'C20'
START_H = 6
WINDOW = (5, 6, 7, 8)


class HarnessError(Exception):
    pass


def drive(coro):
    '''Run a coroutine that must not really suspend.'''
    try:
        coro.send(None)
    except StopIteration as e:
        return e.value
    coro.close()
    raise HarnessError('Notifications method suspended on something other than notify()')


class NotifMonitor:
    '''Online monitor of the Notifications contract.  Feed it the hand-overs and the notifications in
    the order they happen.'''
    __slots__ = ('step', 'mp_seen', 'bp_seen', 'handed', 'notified', 'last_bp', 'last_mp', 'db_height',
                 'violations', 'joins', 'notifs', 'in_start')

    def __init__(self):
        self.step = 0
        self.mp_seen = set()
        self.bp_seen = set()
        self.handed = []          # (token, step, source, height)
        self.notified = {}        # token -> step of the latest notification containing it
        self.last_bp = None       # (height, step)
        self.last_mp = None
        self.db_height = None
        self.violations = []
        self.joins = 0
        self.notifs = 0
        self.in_start = False

    def clone(self):
        m = NotifMonitor.__new__(NotifMonitor)
        m.step, m.mp_seen, m.bp_seen = self.step, set(self.mp_seen), set(self.bp_seen)
        m.handed, m.notified = list(self.handed), dict(self.notified)
        m.last_bp, m.last_mp, m.db_height = self.last_bp, self.last_mp, self.db_height
        m.violations, m.joins, m.notifs = list(self.violations), self.joins, self.notifs
        m.in_start = self.in_start
        return m

    def on_start(self, height):
        '''Call immediately before Notifications.start(height, ...); the start-up notification itself
        (empty set, initialises the header subscription data) is the "start-up at h" of the statement.'''
        # Start-up satisfies clause (a) for its height but is not a report of the block-processor
        # *source*, so it does not open a join for clause (b).
        self.step += 1
        self.bp_seen.add(height)
        self.db_height = height
        self.in_start = True

    def started(self):
        self.in_start = False

    def on_db_height(self, height):
        self.db_height = height

    def before_handover(self, source, height, tokens):
        self.step += 1
        for t in tokens:
            self.handed.append((t, self.step, source, height))
        if source == 'bp':
            self.bp_seen.add(height)
            self.last_bp = (height, self.step)
        else:
            self.mp_seen.add(height)
            self.last_mp = (height, self.step)

    def on_notify(self, height, touched):
        self.notifs += 1
        if self.in_start:
            for t in touched:
                self.notified[t] = self.step
            return
        if height not in self.mp_seen or height not in self.bp_seen:
            self.violations.append(('notify/before-both-reported',
                                    f'notification for height {height} issued without '
                                    f'{"a mempool refresh" if height not in self.mp_seen else "a block report"} at that height'))
        for t in touched:
            self.notified[t] = self.step

    def after_handover(self):
        '''Rule (b): evaluated after the hand-over call returned.'''
        if self.last_bp is None or self.last_mp is None:
            return
        if not (self.last_bp[0] == self.last_mp[0] == self.db_height):
            return
        self.joins += 1
        e = min(self.last_bp[1], self.last_mp[1])
        join_h = self.db_height
        for (t, step, source, h) in self.handed:
            if step <= e and self.notified.get(t, -1) < step:
                rel = 'same' if h == join_h else ('lower' if h < join_h else 'higher')
                self.violations.append((f'notifications/lost/{source}/{rel}-height',
                                        f'{source} hand-over at height {h} (step {step}) is in no notification although both '
                                        f'sources have since reported at the current height {join_h}'))
                break


def clone_notifications(cls, obj, notify):
    new = cls.__new__(cls)
    for k, v in obj.__dict__.items():
        if k == 'notify':
            continue
        if isinstance(v, dict):
            new.__dict__[k] = {a: (set(b) if isinstance(b, (set, frozenset)) else copy.deepcopy(b)) for a, b in v.items()}
        elif isinstance(v, (int, str, type(None), bool)):
            new.__dict__[k] = v
        else:
            new.__dict__[k] = copy.deepcopy(v)
    new.notify = notify
    return new


class Node:
    '''Real object + monitor + environment state.'''
    __slots__ = ('obj', 'mon', 'db', 'db_since_mp', 'tok')

    def __init__(self, cls, pre=True):
        self.mon = NotifMonitor()
        self.obj = cls()
        self.db = START_H
        self.db_since_mp = {START_H}
        self.tok = 0
        mon = self.mon

        async def notify(height, touched):
            mon.on_notify(height, touched)
        mon.on_db_height(START_H)
        if pre:
            # In the real server the first mempool refresh is handed over *before* start(): serve() waits
            # for the mempool event, which _refresh_hashes sets right before its first on_mempool call.
            self.tok += 1
            mon.before_handover('mp', START_H, [self.tok])
            drive(self.obj.on_mempool({self.tok}, START_H))
            mon.after_handover()
        mon.on_start(START_H)
        drive(self.obj.start(START_H, notify))
        mon.started()
        mon.after_handover()

    def clone(self, cls):
        n = Node.__new__(Node)
        n.mon = self.mon.clone()
        mon = n.mon

        async def notify(height, touched):
            mon.on_notify(height, touched)
        n.obj = clone_notifications(cls, self.obj, notify)
        n.db, n.db_since_mp, n.tok = self.db, set(self.db_since_mp), self.tok
        return n

    def ops(self, lag, empties=False):
        '''Operations the surrounding system permits in this state.  Lower-case letters are the same hand-overs with an
        empty touched set (a refresh that found nothing new; a block whose outputs are all unspendable).'''
        out = [('F', x) for x in WINDOW if x != self.db]
        out += [('B', x) for x in WINDOW]
        out.append(('M', self.db))
        if lag:
            out += [('L', x) for x in sorted(self.db_since_mp) if x != self.db]
        if empties:
            out += [('b', x) for x in WINDOW]
            out.append(('m', self.db))
            if lag:
                out += [('l', x) for x in sorted(self.db_since_mp) if x != self.db]
        return out

    def apply(self, op):
        kind, x = op
        if kind == 'F':
            self.db = x
            self.db_since_mp.add(x)
            self.mon.on_db_height(x)
            return
        toks = []
        if kind.isupper():
            self.tok += 1
            toks = [self.tok]
        if kind in 'Bb':
            self.db = x
            self.db_since_mp.add(x)
            self.mon.on_db_height(x)
            self.mon.before_handover('bp', x, toks)
            drive(self.obj.on_block(set(toks), x))
        else:
            self.mon.before_handover('mp', x, toks)
            drive(self.obj.on_mempool(set(toks), x))
            self.db_since_mp = {self.db}
        self.mon.after_handover()


def child_dfs(case):
    from electrumx.server.controller import Notifications as cls
    depth, lag, emp = case['depth'], case['lag'], case.get('empties', False)
    out = {'evaluations': 0, 'counters': {'words': 0, 'joins': 0, 'notifications': 0, 'handovers': 0}, 'sigs': [], 'violations': []}
    c = out['counters']
    seen_keys = {}
    root = Node(cls, case.get('pre', True))
    for op in case['prefix']:
        if tuple(op) not in [tuple(o) for o in root.ops(lag, emp)]:
            return out
        root.apply(tuple(op))
    if root.mon.violations:
        # will be reported by the shorter prefix's own traversal
        pass

    def rec(node, word):
        c['words'] += 1
        out['evaluations'] += 1
        if node.mon.violations:
            key, what = node.mon.violations[0]
            if key not in seen_keys:
                seen_keys[key] = 0
                out['violations'].append({'key': key, 'what': f'{what}; word={word}', 'witness': {'word': word, 'start': START_H, 'pre': case.get('pre', True)}})
            seen_keys[key] += 1
            c['violating_words'] = c.get('violating_words', 0) + 1
            return   # do not extend violating words
        if len(word) >= depth:
            c['joins'] += node.mon.joins
            c['notifications'] += node.mon.notifs
            c['handovers'] += node.mon.step
            return
        for op in node.ops(lag, emp):
            child = node.clone(cls)
            child.apply(op)
            rec(child, word + [op])
    rec(root, [tuple(o) for o in case['prefix']])
    if emp:
        c['words_with_empty_handovers'] = c['words']
    out['sigs'] = [digest(('prefix', case['prefix'], case['depth'], lag, case.get('pre', True), emp))]
    out['sample'] = None
    return out


def child_random(case):
    from electrumx.server.controller import Notifications as cls
    rng = random.Random(case['seed'])
    out = {'evaluations': 0, 'counters': {'random_words': 0, 'joins': 0, 'notifications': 0, 'handovers': 0}, 'sigs': [], 'violations': []}
    c = out['counters']
    seen = set()
    for i in range(case['n']):
        node = Node(cls)
        word = []
        for _ in range(rng.randrange(6, case['maxlen'])):
            ops = node.ops(True, case.get('empties', False))
            # bias towards realistic flow
            op = rng.choice(ops)
            node.apply(op)
            word.append(op)
            if node.mon.violations:
                break
        out['evaluations'] += 1
        c['random_words'] += 1
        c['joins'] += node.mon.joins
        c['notifications'] += node.mon.notifs
        c['handovers'] += node.mon.step
        if node.mon.violations:
            key, what = node.mon.violations[0]
            if key not in seen:
                seen.add(key)
                out['violations'].append({'key': key, 'what': f'{what}; word={word}', 'witness': {'word': word, 'start': START_H}})
        if i == 0:
            out['sample'] = {'random_word': word[:14]}
    out['sigs'] = [digest(('random', case['seed']))]
    return out


class _Pause:
    def __await__(self):
        yield self


def child_overlap(case):
    '''Random words in which notify() really suspends: the hand-over of one source may arrive while the notification issued by
    the other source's hand-over is still in flight (the two sources are separate tasks; each is sequential in itself).'''
    from electrumx.server.controller import Notifications as cls
    rng = random.Random(case['seed'])
    out = {'evaluations': 0, 'counters': {'overlap_words': 0, 'handovers_while_a_notification_was_in_flight': 0, 'joins': 0, 'notifications': 0,
                                          'handovers': 0}, 'sigs': [], 'violations': []}
    c = out['counters']
    seen = set()
    for i in range(case['n']):
        mon = NotifMonitor()
        obj = cls()

        async def notify(height, touched, mon=mon):
            mon.on_notify(height, touched)
            if mon.in_start:
                return
            await _Pause()
        db = START_H
        db_since_mp = {START_H}
        tok = 1
        mon.on_db_height(db)
        mon.before_handover('mp', START_H, [tok])
        drive(obj.on_mempool({tok}, START_H))
        mon.after_handover()
        mon.on_start(START_H)
        drive(obj.start(START_H, notify))
        mon.started()
        mon.after_handover()
        blocked = {}          # source -> suspended coroutine
        word = []

        def step(src, co):
            try:
                co.send(None)
            except StopIteration:
                blocked.pop(src, None)
                mon.after_handover()
                return
            blocked[src] = co
        for _ in range(rng.randrange(6, case['maxlen'])):
            ops = [('F', x) for x in WINDOW if x != db]
            if 'bp' not in blocked:
                ops += [('B', x) for x in WINDOW] + [('b', x) for x in WINDOW]
            else:
                ops += [('Rb', 0)] * 4
            if 'mp' not in blocked:
                ops += [('M', db), ('M', db), ('m', db)] + [('L', x) for x in sorted(db_since_mp) if x != db]
            else:
                ops += [('Rm', 0)] * 4
            op = rng.choice(ops)
            word.append(op)
            kind, x = op
            if kind == 'F':
                db = x
                db_since_mp.add(x)
                mon.on_db_height(x)
            elif kind in ('Rb', 'Rm'):
                src = 'bp' if kind == 'Rb' else 'mp'
                step(src, blocked[src])
            else:
                toks = []
                if kind.isupper():
                    tok += 1
                    toks = [tok]
                if blocked:
                    c['handovers_while_a_notification_was_in_flight'] += 1
                if kind in 'Bb':
                    db = x
                    db_since_mp.add(x)
                    mon.on_db_height(x)
                    mon.before_handover('bp', x, toks)
                    step('bp', obj.on_block(set(toks), x))
                else:
                    mon.before_handover('mp', x, toks)
                    step('mp', obj.on_mempool(set(toks), x))
                    db_since_mp = {db}
            if mon.violations:
                break
        for co in blocked.values():
            co.close()
        out['evaluations'] += 1
        c['overlap_words'] += 1
        c['joins'] += mon.joins
        c['notifications'] += mon.notifs
        c['handovers'] += mon.step
        if mon.violations:
            key, what = mon.violations[0]
            if key not in seen:
                seen.add(key)
                out['violations'].append({'key': 'overlap/' + key, 'what': f'{what}; word={word}', 'witness': {'overlap_word': word, 'seed': case['seed']}})
    out['sigs'] = [digest(('overlap', case['seed']))]
    return out


def replay_word(word, pre=True):
    from electrumx.server.controller import Notifications as cls
    node = Node(cls, pre)
    for op in word:
        node.apply(tuple(op))
    return node.mon.violations


def run(tier, seed, replay=None):
    rep = Report(PID, tier, seed, 'exploration')
    if replay:
        import json
        body = json.load(open(replay))
        if 'overlap_word' in body['witness']:
            r = child_overlap({'seed': body['witness']['seed'], 'n': 8000, 'maxlen': 30})
            print('replay (overlap batch of that seed):', [v_['key'] for v_ in r['violations']] or 'no violation')
            return 1 if r['violations'] else 0
        v = replay_word(body['witness']['word'], body['witness'].get('pre', True))
        print('replay:', body['witness']['word'], '->', v or 'no violation')
        return 1 if v else 0
    thorough = tier == 'thorough'
    depth = 7 if thorough else 6
    # split the tree by all admissible 2-op prefixes
    from electrumx.server.controller import Notifications as cls
    root = Node(cls)
    cases = []
    for lag, pre, emp in ((False, True, False), (True, True, False), (False, False, False), (False, True, True), (True, True, True)):
        d = depth - (1 if lag else 0) - (1 if emp else 0)
        for op1 in root.ops(lag, emp):
            n1 = root.clone(cls)
            n1.apply(op1)
            for op2 in n1.ops(lag, emp):
                cases.append({'prefix': [op1, op2], 'depth': d, 'lag': lag, 'pre': pre, 'empties': emp})
        cases.append({'prefix': [], 'depth': 0, 'lag': lag, 'pre': pre, 'empties': emp})   # the empty word
        for op1 in root.ops(lag, emp):
            cases.append({'prefix': [op1], 'depth': 1, 'lag': lag, 'pre': pre, 'empties': emp})
    rep.absorb(run_cases(child_dfs, cases, watchdog=1800), 'dfs')
    rcases = [{'seed': seed * 65537 + i, 'n': 4000 if thorough else 600, 'maxlen': 40 if thorough else 26, 'empties': i % 2 == 1} for i in range(32)]
    rep.absorb(run_cases(child_random, rcases, watchdog=1800), 'random')
    ocases = [{'seed': seed * 92821 + i, 'n': 8000 if thorough else 1500, 'maxlen': 30 if thorough else 20} for i in range(32)]
    rep.absorb(run_cases(child_overlap, ocases, watchdog=1800), 'overlap')
    # (2) the same monitor on real hand-over traces of the full server, and membership of those traces in the environment model
    from exv.props.c07 import gen_cases
    from exv.sysscen import child as sys_child
    sres = run_cases(sys_child, gen_cases(tier, seed, judge=('C07',), n=24 if not thorough else 200), watchdog=900)
    for r in sres:
        if r is None or r.status != 'ok':
            rep.inconc(f'full-system trace run failed: {r and r.status}')
            continue
        v = r.value
        for k in ('notif_handovers_checked_against_env_model', 'notif_handover_outside_env_model', 'c20_joins_on_real_traces',
                  'notifications_issued'):
            rep.count('real_trace_' + k, v['counters'].get(k, 0))
        for viol in v['violations']:
            if viol['key'].startswith('c20-on-real-trace/'):
                rep.violations.append(dict(viol, key=viol['key'].split('/', 1)[1]))
        rep.sigs.update(s_ if isinstance(s_, str) else digest(s_) for s_ in v.get('sigs') or ())
        rep.evaluations += 1
    if rep.counters['real_trace_notif_handover_outside_env_model']:
        rep.inconc(f'{rep.counters["real_trace_notif_handover_outside_env_model"]} real hand-over(s) fall outside the environment model: '
                   'the enumerated word set is too narrow')
    rep.floor('real_trace_handovers_checked', rep.counters['real_trace_notif_handovers_checked_against_env_model'], 300)
    rep.floor('real_trace_joins', rep.counters['real_trace_c20_joins_on_real_traces'], 100)
    rep.exhaustive = True
    rep.sample({'word': [('F', 7), ('M', 7), ('B', 8), ('M', 8)],
                'meaning': 'F=flush only to x, B=flush+on_block({token},x), M=on_mempool({token}) at the DB height, '
                           'L=on_mempool at a height the DB passed since the last refresh (lagging refresh); lower case = the same with an empty set'})
    rep.floor('words', rep.counters['words'], 100000)
    rep.floor('handovers_while_a_notification_was_in_flight', rep.counters['handovers_while_a_notification_was_in_flight'], 20000)
    rep.floor('words_with_empty_handovers', rep.counters['words_with_empty_handovers'], 50000)
    rep.floor('joins', rep.counters['joins'], 10000)
    rep.floor('notifications', rep.counters['notifications'], 10000)
    return rep.finish(
        rule=f'all words of length <= {depth} (<= {depth - 1} with lagging refreshes) over flush-only / flush+on_block / '
             'on_mempool at the DB height / lagging on_mempool, heights in a 4-value window (rising, repeating, falling), '
             'executed on the real Notifications object by DFS with state copies; unique token per hand-over; the same again one level '
             'shallower with every hand-over also possible with an EMPTY touched set (a refresh that found nothing, a block with no '
             'spendable output); online monitor: '
             '(a) notify(h) only after on_mempool(h) and on_block(h)/start(h); (b) at every join step (latest block report, '
             'latest refresh and DB height all equal) every token handed over at or before the earlier of the two latest '
             'reports is in some notification. Plus random words up to length 40, random words in which notify() really suspends so that one '
             'source hands over while the notification issued for the other is in flight, and the same monitor attached to the real hand-over traces '
             'of full-server runs, each real hand-over also checked for membership in the environment model. distinct = explored subtrees (2-op prefixes) '
             '+ random batches; words counted in monitor_counters',
        assumptions=['environment model: on_block only right after a flush to that height; on_mempool only at a height the '
                     'DB is at, or was at since the previous refresh (validated against real traces in the C07 runs)'])
