'''C02 - confirmed history of every script hash is complete, ordered and duplicate-free.'''
from exv.props.c01 import run_index

PID = 'C02'


def run(tier, seed, replay=None):
    return run_index('C02', tier, seed,
                     'C02 judges: limited_history for every script hash and limits {None,0,1,2,n-1,n,n+1,1000}, fs_tx_hash for '
                     'every tx number, tx hashes per height, concatenated raw history rows, get_history through a session.',
                     {'index_comparisons': 100, 'max_history_rows_per_script': 5, 'max_history_len': 30,
                      'history_only_flushes': 20, 'txnums_compared': 5000, 'session_queries': 100, 'feat_fan_in': 5})
