'''C03 - after any reorganisation the index equals a fresh index of the surviving chain.'''
import random

from exv.core import Report, run_cases
from exv.scen import index_child, flushvec_of, FLUSH_KINDS

PID = 'C03'


def gen_events(rng, limit, style):
    d = lambda: rng.randrange(1, limit + 1)    # noqa
    if style == 'single':
        return [{'k': 'fork', 'depth': d(), 'ext': rng.choice((1, 1, 2, 3))}]
    if style == 'each-depth':
        return [{'k': 'fork', 'depth': k, 'ext': 1} for k in range(1, limit + 1)]
    if style == 'equal-then-extend':
        return [{'k': 'fork', 'depth': d(), 'ext': rng.choice((0, 0, -1)), 'delay': rng.choice((0, 6, 12))}]
    if style == 'midbatch':
        return [{'k': 'fork_at_call', 'depth': d(), 'ext': rng.choice((1, 2)), 'calls': rng.randrange(1, 4), 'pre': rng.randrange(2, 5)}]
    if style == 'back-to-back':
        return [{'k': 'fork', 'depth': d(), 'ext': 1, 'wait': False, 'delay': rng.choice((0, 0.1, 1, 5.1))},
                {'k': 'fork', 'depth': d(), 'ext': rng.choice((1, 2))}]
    if style == 'forced':
        return [{'k': 'reorg', 'n': rng.randrange(0, limit + 1), 'with_switch': rng.random() < 0.4}]
    if style == 'mixed':
        evs = []
        for _ in range(rng.randrange(2, 5)):
            evs += gen_events(rng, limit, rng.choice(('single', 'equal-then-extend', 'midbatch', 'forced', 'back-to-back')))
            if rng.random() < 0.4:
                evs.append({'k': 'mine', 'n': rng.randrange(1, 4)})
        return evs
    raise ValueError(style)


STYLES = ('single', 'each-depth', 'equal-then-extend', 'midbatch', 'back-to-back', 'forced', 'mixed', 'midbatch')


def gen_cases(tier, seed):
    rng = random.Random(seed * 1000003 + 3)
    n = 128 if tier == 'quick' else 2000
    cases = []
    for i in range(n):
        style = STYLES[i % len(STYLES)]
        limit = rng.choice((1, 2, 3, 5, 8, 12)) if style != 'each-depth' else rng.choice((3, 5, 8))
        fk = rng.choice(FLUSH_KINDS)
        crng = random.Random(rng.randrange(1 << 30))
        cases.append({
            # long enough that the doubling search of a (forced) reorg range never reaches genesis: outside the statements
            'pid': PID, 'seed': rng.randrange(1 << 30), 'shape': style, 'n0': max(rng.choice((2 * limit + 2, 12, 20, 30)), 4 * limit + 2 if limit >= 8 else 0),
            'colls': rng.choice((0, 1, 2)), 'prefetch': rng.choice((1, 2, 3, 8, 100)), 'reorg_limit': limit,
            'flushkind': fk, 'flushvec': flushvec_of(fk, crng),
            'policy': rng.choice(('random', 'random', 'lazy', 'eager', 'pct')), 'p': rng.choice((0.1, 0.3, 0.6)),
            'events': gen_events(rng, limit, style), 'sig_schedule': True,
            # tx numbers beyond 255 / 65535 (multi-byte packed tx numbers in history rows) before the fork
            'big': (rng.choice((260, 420)) if i % 3 == 2 else None) if tier == 'quick' or i % 40 else 66000,
            'fresh': (i % 4 == 0) or tier == 'thorough', 'sample': i in (0, 6), 'small_files': i % 3 == 1,
        })
        if cases[-1]['big'] == 66000:
            # tx numbers beyond two bytes: sequential scheduling and a larger logical budget for the 66 000-tx block
            cases[-1].update({'policy': 'eager', 'max_iter': 20_000_000, 'max_jobs': 2_000_000, 'colls': 0})
    return cases


def run(tier, seed, replay=None):
    rep = Report(PID, tier, seed, 'exploration')
    if replay:
        import json
        body = json.load(open(replay))
        res = run_cases(index_child, [body['witness']['case']], watchdog=600)
        rep.absorb(res)
    else:
        rep.absorb(run_cases(index_child, gen_cases(tier, seed), watchdog=300 if tier == 'quick' else 900), 'history')
    c = rep.counters
    floors = {'index_comparisons': 150, 'reorg_ranges': 80, 'history_backups': 100, 'reorg_depth_1': 5, 'reorg_depth_2': 5,
              'reorg_depth_3': 5, 'reorg_depth_5': 2, 'reorg_depth_6_or_more': 4, 'ev_fork_midbatch': 8, 'forced_reorgs': 10, 'fork_equal_or_shorter': 5,
              'reorg_range_doubling_branch': 2, 'fresh_index_differentials': 20, 'feat_remined_tx': 10,
              'histories_with_txnum_above_255': 20}
    if not replay:
        for name, minimum in floors.items():
            rep.floor(name, c[name], minimum)
    return rep.finish(
        rule='generated fork histories (single fork of depth 1..limit, every depth in turn, equal/shorter branch then extension, '
             'fork discovered mid-batch, back-to-back forks, forced reorg of count n with/without a simultaneous daemon switch, '
             'mixed sequences; fork blocks re-mine, conflict with or ignore abandoned transactions) x flush vectors x prefetch x '
             'REORG_LIMIT {1,2,3,5} x job-interleaving policy; only admissible histories (fork points within the undo window '
             'relative to every tip the server may still be on). At every observed catch-up every observable (incl. raw table '
             'rows) is diffed against the reference model of the daemon chain, and in a quarter of the cases (all in thorough) '
             'against a fresh index built by the real code from the final chain. distinct = (style, flush kind, prefetch, limit, '
             'event word, schedule hash)',
        min_distinct=1 if replay else 2,
        assumptions=['a daemon that reorganises to a shorter chain during _calc_reorg_range is outside the statement',
                     'LevelDB batch atomicity'])
