'''C08 - a synchronised mempool view is exact.'''
import random

from exv import harness, vloop
from exv.core import Report, run_cases
from exv.mpscen import MempoolEngine

PID = 'C08'
STEPS = ('add', 'add', 'add', 'add_chain', 'evict', 'mine_all', 'mine_none', 'mine_some', 'mine_parents', 'add_genlike', 'mine2')


def child(case):
    eng = MempoolEngine(case)
    loop = None

    async def run(loop_, dbdir):
        if not await eng.bring_up(loop_, dbdir):
            eng.inconclusive.append('server did not come up')
            return
        if not await eng.wait_synchronised():
            eng.inconclusive.append('no synchronised refresh after start')
            return
        await eng.compare_view('start')
        for i, kind in enumerate(case['steps']):
            if case.get('race') and i % 3 == 1:
                # the daemon changes *during* a refresh (before answering its k-th call): that refresh is not judged, the next
                # synchronised one is - whatever the interrupted refresh left behind must not survive
                eng.step('add')
                r = eng.refreshes + 1
                fired = []
                eng.placements[(r, eng.rng.randrange(1, 4))] = (lambda kind=kind: (eng.step(kind), fired.append(1)))
                await eng.srv.wait_until(lambda: fired or eng.refreshes >= r + 1, 120)
                eng.placements.clear()
                if not fired:
                    eng.step(kind)
                else:
                    eng.bump('steps_placed_inside_a_refresh')
            else:
                eng.step(kind)
            if case.get('two_step') and i % 3 == 2:
                continue       # let two world changes fall between synchronised refreshes
            if not await eng.wait_synchronised():
                if eng.srv.check_task():
                    return
                eng.inconclusive.append(f'no synchronised refresh after step {i}:{kind}')
                return
            await eng.compare_view(f'step{i}:{kind}')
        await eng.srv.stop()
        eng.srv.close_db()
    try:
        _r, loop = harness.run_scenario(run, seed=case['seed'], policy=case.get('policy', 'random'), p=case.get('p', 0.3),
                                        max_vtime=20000, max_jobs=120000, max_iter=3_000_000)
    except (vloop.Budget, vloop.Quiescent) as e:
        eng.inconclusive.append(f'{type(e).__name__}: {e}')
    out = eng.finish(loop)
    if case.get('sample'):
        out['sample'] = {'steps': case['steps'], 'txindex': case.get('txindex'), 'refreshes': eng.refreshes,
                         'handovers': len(eng.handovers)}
    return out


def gen_cases(tier, seed):
    rng = random.Random(seed * 1000003 + 8)
    n = 80 if tier == 'quick' else 1500
    cases = []
    for i in range(n):
        steps = [rng.choice(STEPS) for _ in range(rng.randrange(4, 9))]
        if i % 16 == 5:
            steps.insert(1, 'add_many')
            steps.append('mine_some')
        cases.append({'seed': rng.randrange(1 << 30), 'steps': steps, 'txindex': i % 2 == 0, 'colls': rng.choice((0, 1)),
                      'policy': rng.choice(('random', 'lazy', 'eager')), 'p': 0.3, 'many': 230 if tier == 'quick' else 460,
                      'latency': rng.choice((None, None, (0, 0.1, 1))), 'two_step': i % 4 == 1, 'sample': i < 2, 'race': i % 4 == 3,
                      'prefetch': rng.choice((2, 100))})
    # a single unconfirmed chain spanning three fetch batches (200 + 200 + a few), batches answered in any order
    for j in range(16 if tier == 'quick' else 120):
        cases.append({'seed': rng.randrange(1 << 30), 'steps': ['add_long_chain', 'add', 'mine_some', 'add_long_chain'][:rng.choice((2, 4))],
                      'txindex': j % 2 == 0, 'colls': 0, 'policy': rng.choice(('random', 'lazy', 'eager')), 'p': 0.3,
                      'long_chain': rng.choice((401, 401, 402, 403, 201, 601)), 'latency': rng.choice((None, (0, 0.1, 1))), 'two_step': False,
                      'race': False, 'prefetch': 100})
    # a parent confirmed between the listing and the fetch of a refresh while its child stays: whatever that refresh drops must
    # be picked up by the next one
    for j in range(16 if tier == "quick" else 60):
        cases.append({'seed': rng.randrange(1 << 30), 'steps': ['add_chain', 'mine_parents', 'add', 'add_chain', 'mine_parents', 'add'],
                      'txindex': False, 'colls': 0, 'policy': rng.choice(('random', 'lazy', 'eager')), 'p': 0.3, 'latency': None,
                      'two_step': False, 'race': True, 'prefetch': 100})
    return cases


def run(tier, seed, replay=None):
    rep = Report(PID, tier, seed, 'exploration')
    if replay:
        import json
        rep.absorb(run_cases(child, [json.load(open(replay))['witness']['case']], watchdog=600))
        return rep.finish(rule='replay', min_distinct=0)
    rep.absorb(run_cases(child, gen_cases(tier, seed), watchdog=600), 'sequence')
    c = rep.counters
    for name, minimum in {'synchronised_refreshes_compared': 300, 'nonempty_views_compared': 1000, 'touched_completeness_checks': 250,
                          'scripthashes_that_changed': 500, 'step:add_chain': 10, 'step:mine_parents': 10, 'step:add_genlike': 10,
                          'step:evict': 10, 'step:add_many': 3, 'step:add_long_chain': 12, 'chains_longer_than_two_fetch_batches': 6, 'invariant_evaluations': 10000, 'steps_placed_inside_a_refresh': 10}.items():
        rep.floor(name, c[name], minimum)
    return rep.finish(
        rule='sequences of 4-9 daemon mempool/chain steps (arrivals with confirmed/unconfirmed parents, chains of 8-30 unconfirmed txs, '
             'pools of 230/460 txs crossing the 200-hash fetch batches, single chains of 201/401-403/601 txs (a last fetch batch of one to three txs), evictions, blocks confirming all/none/some/only-parents, '
             'generation-like inputs, several outputs to one script) over a real index, txindex on/off; after each step the harness '
             'waits for a refresh that began and ended with the daemon unchanged and the index at the daemon height (recorded at the '
             'MemPoolAPI hand-over) and compares, for every script hash, balance delta, summaries (hash, fee, flag), unconfirmed UTXOs, '
             'potential spends and the pool key set with the reference model, plus completeness of the touched sets handed over since '
             'the previous synchronised refresh. In a quarter of the sequences every third step is applied in the middle of a refresh '
             '(that refresh is not judged; the next synchronised one is). distinct = (step word, txindex, schedule hash)',
        assumptions=['daemon batch replies are in request order', 'fee not compared for txs with generation-like inputs',
                     'script hashes of OP_RETURN-style scripts are not compared (ambiguous)'])
