'''Core of the runtime-monitoring framework: case runner (forked children), three-valued
verdicts, evidence, replay files and the known-findings filter.

Nothing here imports electrumx.'''
import collections
import faulthandler
import hashlib
import json
import os
import select
import signal
import sys
import tempfile
import time
import traceback

HOME = os.environ.get('EXV_HOME') or os.path.dirname(os.path.dirname(os.path.abspath(__file__)))
REPO = os.environ.get('EXV_REPO', '/repo')
NPROC = int(os.environ.get('EXV_NPROC', '0')) or min(16, os.cpu_count() or 4)


def jdefault(o):
    if isinstance(o, (bytes, bytearray, memoryview)):
        return bytes(o).hex()
    if isinstance(o, (set, frozenset)):
        return sorted(o, key=repr)
    if isinstance(o, tuple):
        return list(o)
    return repr(o)


def jdump(obj, **kw):
    return json.dumps(obj, default=jdefault, **kw)


def digest(obj):
    return hashlib.sha256(jdump(obj, sort_keys=True).encode()).hexdigest()[:16]


def scratch_dir(prefix='exv-'):
    '''A scratch directory outside /repo and /verif; the caller removes it.'''
    base = os.environ.get('EXV_SCRATCH')
    if not base and os.path.isdir('/dev/shm') and os.access('/dev/shm', os.W_OK):
        base = '/dev/shm'
    return tempfile.mkdtemp(prefix=prefix, dir=base)


# ---------------------------------------------------------------------------------------
# Forked case runner

class CaseResult:
    __slots__ = ('case', 'status', 'value', 'stderr', 'wall')

    def __init__(self, case, status, value, stderr, wall):
        self.case, self.status, self.value, self.stderr, self.wall = case, status, value, stderr, wall


def _child_main(fn, case, wfd, errpath, watchdog):
    try:
        errf = open(errpath, 'w')
        os.dup2(errf.fileno(), 2)
        faulthandler.enable(file=errf)
        faulthandler.dump_traceback_later(watchdog, exit=True, file=errf)
        # Keep library logging quiet but available in stderr file
        try:
            res = {'ok': fn(case)}
        except SystemExit:
            raise
        except BaseException:    # noqa
            res = {'exc': traceback.format_exc()[-6000:]}
        data = jdump(res).encode()
        view = memoryview(data)
        while view:
            n = os.write(wfd, view[:1 << 16])
            view = view[n:]
    finally:
        os._exit(0)


def run_cases(fn, cases, *, nproc=None, watchdog=60, progress=None, stop_after=None):
    '''Run fn(case) in a forked child for each case, nproc at a time.

    Returns a list of CaseResult in case order.  status is 'ok' (value = fn's JSON-able return),
    'exc' (value = traceback text: the harness itself failed), 'crash' (child died, value = exit
    status) or 'timeout' (watchdog fired: inconclusive).  The parent must be thread-free.'''
    nproc = nproc or NPROC
    cases = list(cases)
    results = [None] * len(cases)
    running = {}    # rfd -> (idx, pid, buf, errpath, start)
    nxt = 0
    tmpdir = tempfile.mkdtemp(prefix='exv-err-')
    deadline_total = None if stop_after is None else time.time() + stop_after
    try:
        while nxt < len(cases) or running:
            while nxt < len(cases) and len(running) < nproc:
                if deadline_total and time.time() > deadline_total:
                    # Budget exhausted: remaining cases are not run (reported by caller via None)
                    nxt = len(cases)
                    break
                idx = nxt
                nxt += 1
                rfd, wfd = os.pipe()
                errpath = os.path.join(tmpdir, f'{idx}.err')
                sys.stdout.flush()
                pid = os.fork()
                if pid == 0:
                    os.close(rfd)
                    for fd_ in list(running):
                        try:
                            os.close(fd_)
                        except OSError:
                            pass
                    _child_main(fn, cases[idx], wfd, errpath, watchdog)
                os.close(wfd)
                running[rfd] = [idx, pid, bytearray(), errpath, time.time()]
            if not running:
                break
            ready, _, _ = select.select(list(running), [], [], 1.0)
            now = time.time()
            for rfd in ready:
                ent = running[rfd]
                chunk = os.read(rfd, 1 << 16)
                if chunk:
                    ent[2] += chunk
                    continue
                os.close(rfd)
                del running[rfd]
                idx, pid, buf, errpath, start = ent
                _, st = os.waitpid(pid, 0)
                try:
                    with open(errpath) as f:
                        err = f.read()[-6000:]
                except OSError:
                    err = ''
                try:
                    os.unlink(errpath)
                except OSError:
                    pass
                wall = now - start
                if buf:
                    try:
                        res = json.loads(bytes(buf))
                    except ValueError:
                        res = None
                    if res is None:
                        results[idx] = CaseResult(cases[idx], 'crash', 'bad result', err, wall)
                    elif 'ok' in res:
                        results[idx] = CaseResult(cases[idx], 'ok', res['ok'], err, wall)
                    else:
                        results[idx] = CaseResult(cases[idx], 'exc', res['exc'], err, wall)
                else:
                    timed_out = 'Timeout (' in err
                    code = os.WEXITSTATUS(st) if os.WIFEXITED(st) else -os.WTERMSIG(st)
                    results[idx] = CaseResult(cases[idx], 'timeout' if timed_out else 'crash',
                                              code, err, wall)
                if progress:
                    progress(results[idx])
            # hard kill for children that ignore the watchdog (stuck in C code)
            for rfd, ent in list(running.items()):
                if now - ent[4] > watchdog + 15:
                    try:
                        os.kill(ent[1], signal.SIGKILL)
                    except OSError:
                        pass
    finally:
        for rfd, ent in running.items():
            try:
                os.kill(ent[1], signal.SIGKILL)
                os.waitpid(ent[1], 0)
            except OSError:
                pass
        try:
            for name in os.listdir(tmpdir):
                os.unlink(os.path.join(tmpdir, name))
            os.rmdir(tmpdir)
        except OSError:
            pass
    return results


# ---------------------------------------------------------------------------------------
# Verdicts, evidence, known findings

def load_known():
    path = os.path.join(HOME, 'known_findings.json')
    try:
        with open(path) as f:
            data = json.load(f)
    except FileNotFoundError:
        return []
    return data.get('findings', [])


class Report:
    '''Collects what one check run observed and turns it into exit code + evidence.'''

    def __init__(self, pid, tier, seed, level):
        self.pid, self.tier, self.seed, self.level = pid, tier, seed, level
        self.t0 = time.time()
        self.counters = collections.Counter()
        self.sigs = set()
        self.evaluations = 0
        self.samples = []
        self.violations = []      # dicts: key, what, witness
        self.inconclusive = []    # strings
        self.floors = {}          # name -> (value, minimum)
        self.extra = {}
        self.exhaustive = None

    # -- recording
    def count(self, name, n=1):
        self.counters[name] += n

    def sig(self, *parts):
        self.sigs.add(digest(parts))

    def sample(self, obj, cap=6):
        if len(self.samples) < cap:
            self.samples.append(obj)

    def violation(self, key, what, witness):
        self.violations.append({'key': key, 'what': what, 'witness': witness})

    def inconc(self, reason):
        self.inconclusive.append(reason)

    def floor(self, name, value, minimum):
        self.floors[name] = (value, minimum)

    def merge_child(self, value):
        '''Merge the standard dict returned by a scenario child.'''
        self.evaluations += value.get('evaluations', 1)
        for k, v in (value.get('counters') or {}).items():
            if k.startswith('max_'):
                self.counters[k] = max(self.counters[k], v)
            else:
                self.counters[k] += v
        for s in value.get('sigs') or ():
            self.sigs.add(s if isinstance(s, str) else digest(s))
        for v in value.get('violations') or ():
            self.violations.append(v)
        for r in value.get('inconclusive') or ():
            self.inconclusive.append(r)
        if value.get('sample') is not None:
            self.sample(value['sample'])

    def absorb(self, results, label='case'):
        '''Merge CaseResults from run_cases; harness failures become inconclusive.'''
        for r in results:
            if r is None:
                self.count('cases_not_run_budget')
                continue
            if r.status == 'ok':
                self.merge_child(r.value)
            elif r.status == 'timeout':
                self.inconc(f'{label} {digest(r.case)} watchdog fired')
                self.extra.setdefault('timeouts', []).append(
                    {'case': r.case, 'stderr_tail': r.stderr[-1500:]})
            elif r.status == 'exc':
                self.inconc(f'{label} {digest(r.case)} harness exception: '
                            f'{r.value.strip().splitlines()[-1][:200]}')
                self.extra.setdefault('harness_exceptions', []).append(
                    {'case': r.case, 'traceback': r.value[-3000:]})
            else:
                self.inconc(f'{label} {digest(r.case)} child died status={r.value}')
                self.extra.setdefault('crashes', []).append(
                    {'case': r.case, 'status': r.value, 'stderr_tail': r.stderr[-1500:]})

    # -- finishing
    def finish(self, rule, assumptions=(), min_distinct=2):
        known = [k for k in load_known() if k.get('property') == self.pid]
        known_keys = {k['key']: k for k in known if k.get('status') == 'known'}
        unknown, seen_known = [], {}
        for v in self.violations:
            if v['key'] in known_keys:
                seen_known.setdefault(v['key'], []).append(v)
            else:
                unknown.append(v)

        for key, vs in seen_known.items():
            print(f'KNOWN-FINDING: property={self.pid} {known_keys[key]["what"]} '
                  f'[key={key}; seen {len(vs)}x this run]')

        replay_paths = []
        by_key = collections.OrderedDict()
        for v in unknown:
            by_key.setdefault(v['key'], []).append(v)
        os.makedirs(os.path.join(HOME, 'replays'), exist_ok=True)
        for key, vs in by_key.items():
            v = vs[0]
            body = {'property': self.pid, 'tier': self.tier, 'seed': self.seed, 'key': key,
                    'what': v['what'], 'witness': v['witness'], 'occurrences': len(vs)}
            rel = os.path.join('replays', f'{self.pid}-{digest(body)}.json')
            with open(os.path.join(HOME, rel), 'w') as f:
                f.write(jdump(body, indent=1))
            replay_paths.append(rel)
            print(f'VIOLATION property={self.pid} replay={rel}')
            print(f'  key={key} ({len(vs)}x): {v["what"][:400]}')

        unmet = {n: vm for n, vm in self.floors.items() if vm[0] < vm[1]}
        nd = len(self.sigs)
        if nd < min_distinct:
            unmet['distinct_nontrivial'] = (nd, min_distinct)

        if unknown:
            verdict, code = 'violated', 1
        elif self.inconclusive or unmet:
            verdict, code = 'inconclusive', 2
            reasons = list(self.inconclusive[:5])
            reasons += [f'floor {n}: observed {v} < required {m}' for n, (v, m) in unmet.items()]
            print(f'INCONCLUSIVE property={self.pid} reason=' + ' | '.join(reasons)[:1500])
        else:
            verdict, code = 'held', 0

        coverage = {
            'evaluations': int(self.evaluations),
            'distinct_nontrivial': nd,
            'rule': rule,
            'samples': self.samples or ['(no sample recorded)'],
            'monitor_counters': dict(sorted(self.counters.items())),
            'floors': {n: {'observed': v, 'required': m} for n, (v, m) in self.floors.items()},
            'verdict': verdict,
            'known_findings_seen': {k: len(v) for k, v in seen_known.items()},
            'inconclusive_reasons': self.inconclusive[:20],
            'replays': replay_paths,
        }
        if self.exhaustive is not None:
            coverage['exhaustive'] = bool(self.exhaustive)
        coverage.update(self.extra)
        ev = {
            'property_id': self.pid, 'tier': self.tier, 'seed': int(self.seed),
            'level': self.level, 'coverage': coverage,
            'assumptions': list(assumptions),
            'wall_s': round(time.time() - self.t0, 2),
            'violations': len(unknown),
        }
        os.makedirs(os.path.join(HOME, 'evidence'), exist_ok=True)
        path = os.path.join(HOME, 'evidence', f'{self.pid}.json')
        with open(path + '.tmp', 'w') as f:
            f.write(jdump(ev, indent=1))
        os.replace(path + '.tmp', path)
        held = 'held on everything observed' if code == 0 else verdict
        print(f'{self.pid} {self.tier} seed={self.seed}: {held}; evaluations={self.evaluations} '
              f'distinct_nontrivial={nd} wall={ev["wall_s"]}s')
        top = ', '.join(f'{k}={v}' for k, v in sorted(self.counters.items())[:40])
        print(f'  observed: {top}')
        return code
