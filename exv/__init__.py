'''exv - runtime monitors for electrumx (see /verif/DESIGN.md).'''
